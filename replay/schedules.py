#!/venv/bin/python
"""Bounded native exploration of cooperative schedules on the REAL code (label: bounded; never counted as proved).

A tiny deterministic scheduler drives coroutines by hand: every `await Suspend()` / lock wait inside the instrumented
environment (source, lock) is a point where any other runnable task may run.  All schedules of the stated small bounds
are enumerated depth first (stateless: the scenario is re-run from scratch for every schedule prefix).  Used
 * as the replay search for failed tee obligations (C09 and the tee parts of C01/C04/C18/C20): a failing schedule found
   here is a concrete counterexample on the real code;
 * as a bounded stand-in for what the deductive tee jobs leave out (three children, cancellation combined with
   interference).

tee scenario: `n` consumer tasks over one source of `length` items; the source suspends `sus` times per `__anext__`;
optional lock whose acquire blocks while held and whose release suspends once after freeing; consumer i closes its
child after `close_after[i]` items (None: runs to exhaustion); optionally one task is cancelled at one suspension.
Checked on every complete schedule (statement of C09):
 every child yields the source's items in source order (a prefix if it stopped early); a child that ran to exhaustion
 saw all of them; with a lock (or a non-suspending source) the source is never entered by two consumers at once; no
 surviving consumer fails; the source is closed exactly once when every child is done; no item object is alive after
 all children are done, and whenever all live children have yielded an item it is no longer referenced by tee."""
import gc
import itertools
import json
import sys
import weakref


class Suspend:
    def __init__(self, lock=None, between=False):
        self.lock, self.between = lock, between

    def __await__(self):
        yield self


class Cancelled(BaseException):
    pass


class Item:
    __slots__ = ("k", "__weakref__")

    def __init__(self, k):
        self.k = k

    def __repr__(self):
        return f"i{self.k}"


class Lock:
    """blocking acquire; release frees the lock, then suspends once (a release may be a suspension point)"""
    def __init__(self):
        self.locked = False
        self.owner = None
        self.world = None

    async def __aenter__(self):
        await Suspend(lock=self)            # resumed only while the lock is free; may also be cancelled here
        if self.locked:
            raise AssertionError("scheduler resumed a lock waiter while the lock is held")
        self.locked = True
        self.owner = self.world.current if self.world is not None else None

    async def __aexit__(self, *exc):
        if not self.locked:
            raise RuntimeError("Lock is not acquired.")
        self.locked = False
        self.owner = None
        await Suspend()
        return False


class Source:
    def __init__(self, items, sus, log):
        self.items, self.sus, self.i, self.active, self.closed, self.log = items, sus, 0, 0, 0, log
        self.overlap = False

    def __aiter__(self):
        return self

    async def __anext__(self):
        self.active += 1
        if self.active > 1:
            self.overlap = True
        try:
            for _ in range(self.sus):
                await Suspend()
            if self.i >= len(self.items):
                raise StopAsyncIteration
            it = self.items[self.i]
            self.items[self.i] = None           # the source does not keep its items alive
            self.i += 1
            return it
        finally:
            self.active -= 1

    async def aclose(self):
        self.closed += 1


class World:
    pass


def tee_scenario(n, length, sus, with_lock, close_after):
    import asyncstdlib as a
    w = World()
    w.refs = []
    items = [Item(k) for k in range(length)]
    w.refs = [weakref.ref(x) for x in items]
    w.source = Source(items, sus, None)
    del items
    w.lock = Lock() if with_lock else None
    w.current = None
    if w.lock is not None:
        w.lock.world = w
    w.tee = a.tee(w.source, n=n, lock=w.lock) if with_lock else a.tee(w.source, n=n)
    w.seen = [[] for _ in range(n)]
    w.done = [None] * n            # "exhausted" / "closed" / "cancelled" / repr(exception)
    w.n = n

    async def consumer(i):
        child = w.tee[i]
        try:
            while close_after[i] is None or len(w.seen[i]) < close_after[i]:
                try:
                    x = await child.__anext__()
                except StopAsyncIteration:
                    w.done[i] = "exhausted"
                    return
                w.seen[i].append(x.k)
                del x
                await Suspend(between=True)     # between items: the consumer does something else
            await child.aclose()
            w.done[i] = "closed"
        except Cancelled:
            w.done[i] = "cancelled"
            try:
                await child.aclose()        # a cancelled consumer's iterator is finalised (async-for / aclosing)
            except BaseException as e:       # noqa: BLE001
                w.done[i] = f"cancelled, close failed: {e!r}"
        except BaseException as e:           # noqa: BLE001
            w.done[i] = f"failed: {e!r}"
    w.tasks = [consumer(i) for i in range(n)]
    return w


def check_tee(w, length, with_lock, sus, final):
    bad = []
    yielded_by_all_live = None
    for i in range(w.n):
        if w.seen[i] != list(range(len(w.seen[i]))):
            bad.append(f"child {i} saw {w.seen[i]}, not a prefix of the source sequence")
        if w.done[i] is not None and w.done[i].startswith("failed"):
            bad.append(f"consumer {i} {w.done[i]}")
        if w.done[i] is not None and "close failed" in w.done[i]:
            bad.append(f"consumer {i} {w.done[i]}")
        if w.done[i] == "exhausted" and len(w.seen[i]) != length:
            bad.append(f"child {i} ended after {w.seen[i]} although the source has {length} items")
        if w.done[i] is None:
            yielded_by_all_live = len(w.seen[i]) if yielded_by_all_live is None else min(yielded_by_all_live, len(w.seen[i]))
    if (with_lock or sus == 0) and w.source.overlap:
        bad.append("the source was advanced by two consumers at once")
    if w.source.closed > 1:
        bad.append(f"source closed {w.source.closed} times")
    if final:
        if all(d is not None for d in w.done):
            if w.source.closed != 1:
                bad.append(f"every child is done but the source was closed {w.source.closed} times")
            alive = [k for k, r in enumerate(w.refs) if r() is not None and k < w.source.i]
            if alive:
                gc.collect()        # only reference cycles can keep an item alive past its last reference
                alive = [k for k, r in enumerate(w.refs) if r() is not None and k < w.source.i]
            if alive:
                bad.append(f"items {alive} are still referenced after every child is done")
    elif yielded_by_all_live is not None:
        alive = [k for k, r in enumerate(w.refs) if r() is not None and k < yielded_by_all_live]
        if alive:
            bad.append(f"items {alive} were yielded by every live child but are still referenced")
    return bad


def run_schedule(make, prefix, cancel_allowed, max_steps=200):
    """-> (violations, alternatives[list of prefixes], trace)"""
    w = make()
    tasks = w.tasks
    n = len(tasks)
    state = ["ready"] * n        # ready / done
    waiting = [None] * n         # the Suspend object a task is parked on
    started = [False] * n
    trace = []
    alts = []
    pos = 0
    cancelled = False
    steps = 0
    while True:
        runnable = [i for i in range(n) if state[i] == "ready" and not (waiting[i] is not None and waiting[i].lock is not None and waiting[i].lock.locked)]
        if not runnable:
            break
        choices = [("run", i) for i in runnable]
        if cancel_allowed and not cancelled:
            choices += [("cancel", i) for i in getattr(w, "cancellable", range(n)) if state[i] == "ready" and started[i]]
        if pos < len(prefix):
            c = tuple(prefix[pos])
            if c not in choices:
                return None, [], trace       # prefix not feasible (should not happen)
        else:
            c = choices[0]
            for alt in choices[1:]:
                alts.append(trace + [alt])
        pos += 1
        trace.append(c)
        kind, i = c
        steps += 1
        if steps > max_steps:
            return [f"no termination within {max_steps} steps (livelock or deadlock?)"], [], trace
        try:
            if kind == "cancel":
                cancelled = True
                waiting[i] = tasks[i].throw(Cancelled())
            else:
                started[i] = True
                w.current = i
                waiting[i] = tasks[i].send(None)
                w.current = None
        except (StopIteration, Cancelled):
            state[i] = "done"
            waiting[i] = None
        bad = w.check(False)
        if waiting[i] is not None and waiting[i].between and getattr(w, "lock", None) is not None and w.lock.locked and w.lock.owner == i:
            bad.append(f"consumer {i} holds the lock while it is between items (lock held across a yield)")
        if bad:
            return bad, [], trace
    stuck = [i for i in range(n) if state[i] != "done"]
    if stuck:
        return [f"deadlock: tasks {stuck} wait for a lock nobody releases"], alts, trace
    return w.check(True), alts, trace


def explore(make, cancel_allowed, limit):
    stack = [[]]
    count = 0
    while stack and count < limit:
        prefix = stack.pop()
        bad, alts, trace = run_schedule(make, prefix, cancel_allowed)
        count += 1
        if bad:
            return count, bad, trace
        stack.extend(alts)
    return count, None, None


def _tee_one(args):
    n, length, sus, with_lock, close_after, cancel, limit = args

    def make():
        w = tee_scenario(n, length, sus, with_lock, close_after)
        w.length, w.with_lock, w.sus = length, with_lock, sus
        w.check = lambda final: check_tee(w, length, with_lock, sus, final)
        return w
    cnt, bad, trace = explore(make, cancel, limit)
    viol = None
    if bad:
        viol = {"scenario": {"children": n, "source_length": length, "source_suspends_per_item": sus, "lock": with_lock,
                             "close_after": list(close_after), "cancellation": cancel},
                "schedule": [list(c) for c in trace], "what": bad}
    return cnt, cnt >= limit, viol


def tee(tier="quick", procs=None):
    import multiprocessing as mp
    import os
    out = {"schedules": 0, "scenarios": 0, "violations": [], "truncated": 0}
    lengths = (0, 1, 2) if tier == "quick" else (0, 1, 2, 3)
    limit = 5000 if tier == "quick" else 20000
    work = []
    for n in ((2,) if tier == "quick" else (2, 3)):
        for length in lengths:
            for sus in (0, 1):
                for with_lock in (False, True):
                    if not with_lock and sus > 0:
                        continue        # the property promises nothing for a suspending source without a lock
                    closes = [None] + list(range(0, length + 1))
                    if n == 3 and length > 2:
                        continue
                    for close_after in itertools.product(closes, repeat=n):
                        if n == 3 and sum(c is not None for c in close_after) > 1:
                            continue
                        for cancel in (False, True):
                            work.append((n, length, sus, with_lock, close_after, cancel, limit))
    procs = procs or min(16, os.cpu_count() or 4)
    with mp.get_context("fork").Pool(procs) as pool:
        for cnt, trunc, viol in pool.imap_unordered(_tee_one, work, chunksize=2):
            out["schedules"] += cnt
            out["scenarios"] += 1
            out["truncated"] += int(trunc)
            if viol:
                out["violations"].append(viol)
    out["violations"].sort(key=lambda v: (len(v["schedule"]), json.dumps(v["scenario"])))
    out["violations"] = out["violations"][:5]
    out["bound"] = (f"children {2 if tier == 'quick' else '2..3 (3 children: lengths 0..2)'}, source lengths {list(lengths)}, source suspends 0..1 times per item, with/without lock "
                    f"(a suspending source only with lock), each child closed after j items or never (n=3: at most one closing child), at most one cancellation at any "
                    f"suspension point; all schedules depth first, at most {limit} per scenario ({out['truncated']} scenarios truncated)")
    return out


# =====================================================================================================
# lru_cache under overlapping calls (C11)
# =====================================================================================================
class Boom(Exception):
    pass


def lru_scenario(maxsize, plans, sus, fail_at, op):
    """plans[t] = keys task t calls one after the other; the wrapped function suspends `sus` times; its `fail_at`-th
    invocation raises; op = None | ("clear",) | ("discard", key) performed by one more task"""
    import asyncstdlib as a
    w = World()
    w.invocations = []
    w.results = []          # (task, key, outcome)
    w.calls_started = 0
    w.cleared = False
    w.probing = False       # the usability probe after the run is not subject to the injected failure

    @a.lru_cache(maxsize=maxsize)
    async def fn(key):
        n = len(w.invocations)
        w.invocations.append(key)
        for _ in range(sus):
            await Suspend()
        if fail_at == n and not w.probing:
            raise Boom(key)
        return ("value", key, n)
    w.fn = fn

    async def caller(t):
        for key in plans[t]:
            w.calls_started += 1
            try:
                r = await fn(key)
                w.results.append((t, key, r))
            except Boom:
                w.results.append((t, key, "boom"))
            except Cancelled:
                w.results.append((t, key, "cancelled"))
                return
            except BaseException as e:      # noqa: BLE001
                w.results.append((t, key, f"failed: {e!r}"))

    async def operator():
        await Suspend()
        if op[0] == "clear":
            fn.cache_clear()
            w.cleared = True
        else:
            fn.cache_discard(op[1])
    w.tasks = [caller(t) for t in range(len(plans))] + ([operator()] if op else [])
    w.cancellable = range(len(plans))

    def check(final):
        bad = []
        info = fn.cache_info()
        for t, key, r in w.results:
            if isinstance(r, tuple) and r[1] != key:
                bad.append(f"task {t} called with key {key} and received {r}")
        if maxsize is not None and maxsize > 0 and info.currsize > maxsize:
            bad.append(f"{info.currsize} entries stored, maxsize is {maxsize}")
        if not w.cleared:
            if info.hits + info.misses != w.calls_started:
                bad.append(f"hits {info.hits} + misses {info.misses} != {w.calls_started} calls made")
            if info.misses != len(w.invocations):
                bad.append(f"misses {info.misses} != {len(w.invocations)} invocations of the wrapped function")
        for t, key, r in w.results:
            if isinstance(r, str) and r.startswith("failed"):
                bad.append(f"task {t} key {key}: {r}")
        if final:
            # the cache is fully usable afterwards: every key can be called again and yields a value for that key
            async def again():
                out = []
                for key in sorted({k for p in plans for k in p}):
                    out.append((key, await fn(key)))
                return out
            w.probing = True
            co = again()
            try:
                while True:
                    co.send(None)
            except StopIteration as st:
                for key, r in st.value:
                    if not (isinstance(r, tuple) and r[1] == key):
                        bad.append(f"after all calls finished, calling key {key} gave {r!r}")
            except BaseException as e:          # noqa: BLE001
                bad.append(f"after all calls finished the cache is unusable: {e!r}")
        return bad
    w.check = check
    return w


def _wrap_failures(coro_fn):
    return coro_fn


def _lru_one(args):
    maxsize, plans, sus, fail_at, op, cancel, limit = args
    cnt, bad, trace = explore(lambda: lru_scenario(maxsize, plans, sus, fail_at, op), cancel, limit)
    viol = None
    if bad:
        viol = {"scenario": {"maxsize": maxsize, "calls_per_task": [list(p) for p in plans], "function_suspends": sus, "failing_invocation": fail_at,
                             "operation": list(op) if op else None, "cancellation": cancel},
                "schedule": [list(c) for c in trace], "what": bad}
    return cnt, cnt >= limit, viol


def lru(tier="quick"):
    limit = 5000 if tier == "quick" else 20000
    work = []
    planset = [((0,), (0,)), ((0,), (1,)), ((0, 1), (1, 0)), ((0, 0), (0,)), ((0, 1), (2,))]
    if tier != "quick":
        planset += [((0,), (0,), (0,)), ((0, 1), (1, 2), (2, 0)), ((0, 1, 2), (2, 1))]
    for maxsize in (None, 1, 2):
        for plans in planset:
            for sus in ((1,) if tier == "quick" else (1, 2)):
                for fail_at in (None, 0, 1):
                    for op in (None, ("clear",), ("discard", 0)):
                        for cancel in (False, True):
                            if fail_at is not None and (op or cancel) and tier == "quick":
                                continue
                            work.append((maxsize, plans, sus, fail_at, op, cancel, limit))
    return _run_pool(_lru_one, work, f"2{'' if tier == 'quick' else '..3'} calling tasks with 1..{2 if tier == 'quick' else 3} calls each over up to 3 keys, maxsize in {{None,1,2}}, "
                                     f"wrapped function suspending {'1' if tier == 'quick' else '1..2'} times, optionally one failing invocation, one interleaved cache_clear or "
                                     f"cache_discard, one cancellation at any suspension point; at most {limit} schedules per scenario")


# =====================================================================================================
# cached_property under overlapping awaiters (C12)
# =====================================================================================================
class AwaitableResult:
    """a getter result that is itself awaitable (like a Task or Future)"""
    def __init__(self, n):
        self.n = n

    def __await__(self):
        return ("awaited", self.n)
        yield

    def __repr__(self):
        return f"<awaitable result of run {self.n}>"


def cp_scenario(with_lock, n_await, sus, fail_first, deleter, awaitable=False, reuse=False):
    import asyncstdlib as a
    w = World()
    w.runs = []
    w.got = []
    w.lock_instances = []

    class L(Lock):
        def __init__(self):
            super().__init__()
            self.world = w
            w.lock_instances.append(self)

    deco = a.cached_property(L) if with_lock else a.cached_property

    class C:
        @deco
        async def data(self):
            n = len(w.runs)
            w.runs.append(n)
            for _ in range(sus):
                await Suspend()
            if fail_first and n == 0:
                raise Boom("getter")
            return AwaitableResult(n) if awaitable else ("value", n)
    w.obj = C()
    w.deleted = 0

    async def awaiter(t):
        try:
            w.got.append((t, await w.obj.data))
        except Boom:
            w.got.append((t, "boom"))
        except Cancelled:
            w.got.append((t, "cancelled"))
        except BaseException as e:      # noqa: BLE001
            w.got.append((t, f"failed: {e!r}"))

    async def reusing():
        # take the placeholder, await it, delete the attribute, await the retained placeholder again
        try:
            p = w.obj.data
            first = await p
            del w.obj.data
            w.deleted += 1
            second = await p
            third = await w.obj.data
            w.got.append(("reuse", (first, second, third)))
        except Boom:
            w.got.append(("reuse", "boom"))
        except BaseException as e:      # noqa: BLE001
            w.got.append(("reuse", f"failed: {e!r}"))

    async def deleting():
        await Suspend()
        try:
            del w.obj.data
            w.deleted += 1
        except AttributeError:
            pass
    if reuse:
        w.tasks = [reusing()]
        w.cancellable = range(0)
    else:
        w.tasks = [awaiter(t) for t in range(n_await)] + ([deleting()] if deleter else [])
        w.cancellable = range(n_await)

    def runs_of(v):
        return v.n if isinstance(v, AwaitableResult) else (v[1] if isinstance(v, tuple) and v and v[0] == "value" else None)

    def check(final):
        bad = []
        vals = []
        for t, g in w.got:
            if t == "reuse":
                if isinstance(g, tuple):
                    first, second, third = g
                    if runs_of(first) is None or runs_of(second) is None or runs_of(third) is None:
                        bad.append(f"placeholder reuse returned {g}")
                    elif runs_of(second) == runs_of(first):
                        bad.append(f"after del, the retained placeholder served the deleted value again: {g}")
                    elif runs_of(third) != runs_of(second):
                        bad.append(f"after the retained placeholder recomputed, a fresh access returned another value: {g}")
                elif g != "boom":
                    bad.append(f"placeholder reuse {g}")
                continue
            if isinstance(g, str):
                if g.startswith("failed"):
                    bad.append(f"awaiter {t} {g}")
                continue
            if runs_of(g) is None or runs_of(g) not in w.runs:
                bad.append(f"awaiter {t} received {g!r}, which no getter run returned")
            else:
                vals.append(runs_of(g))
        if final and not reuse:
            for lk in w.lock_instances:
                if lk.locked:
                    bad.append("a lock is still held after every awaiter finished")
            failures = sum(1 for _, g in w.got if g in ("boom", "cancelled"))
            if with_lock:
                if not deleter and len(set(vals)) > 1:
                    bad.append(f"with a lock and no deletion the awaiters received the values of runs {sorted(set(vals))}: more than one cached value")
                if len(w.runs) > 1 + failures + w.deleted:
                    bad.append(f"the getter ran {len(w.runs)} times for {failures} failed/cancelled computations, {w.deleted} deletions and one cached value")
            # later accesses are served from the cache
            before = len(w.runs)

            async def again():
                return (await w.obj.data, await w.obj.data)
            co = again()
            try:
                while True:
                    co.send(None)
            except StopIteration as st:
                a1, a2 = st.value
                if runs_of(a1) is None or runs_of(a1) != runs_of(a2):
                    bad.append(f"two later accesses returned {a1!r} and {a2!r}")
                if len(w.runs) > before + 1:
                    bad.append("later accesses recomputed more than once")
                if vals and not w.deleted and len(w.runs) > before:
                    bad.append(f"awaiters received values of runs {sorted(set(vals))}, nothing was deleted, but a later access recomputed")
            except Boom:
                pass
            except BaseException as e:      # noqa: BLE001
                bad.append(f"later access failed: {e!r}")
        return bad
    w.check = check
    return w


def _cp_one(args):
    with_lock, n_await, sus, fail_first, deleter, cancel, limit, awaitable, reuse = args
    cnt, bad, trace = explore(lambda: cp_scenario(with_lock, n_await, sus, fail_first, deleter, awaitable, reuse), cancel, limit)
    viol = None
    if bad:
        viol = {"scenario": {"lock": with_lock, "awaiters": n_await, "getter_suspends": sus, "first_run_fails": fail_first, "deleting_task": deleter, "cancellation": cancel,
                             "getter_result_is_awaitable": awaitable, "placeholder_reused_after_del": reuse},
                "schedule": [list(c) for c in trace], "what": bad}
    return cnt, cnt >= limit, viol


def cached_property(tier="quick"):
    limit = 5000 if tier == "quick" else 20000
    work = []
    for with_lock in (False, True):
        for n_await in ((2, 3) if tier == "quick" else (2, 3, 4)):
            for sus in (1, 2):
                for fail_first in (False, True):
                    for deleter in (False, True):
                        for cancel in (False, True):
                            work.append((with_lock, n_await, sus, fail_first, deleter, cancel, limit, False, False))
        for awaitable in (False, True):
            work.append((with_lock, 2, 1, False, False, False, limit, awaitable, False))
            work.append((with_lock, 1, 1, False, False, False, limit, awaitable, True))
    return _run_pool(_cp_one, work, f"2..{3 if tier == 'quick' else 4} awaiting tasks, getter suspending 1..2 times, with and without lock, optionally a failing first run, "
                                    f"a deleting task, one cancellation at any suspension point; at most {limit} schedules per scenario")


# =====================================================================================================
# context managers as decorators under overlapping calls (C15)
# =====================================================================================================
def deco_scenario(kind, n_calls, body, recursive, suppress=False):
    import asyncstdlib as a
    w = World()
    w.log = []
    w.ids = itertools.count()

    if kind == "generator":
        @a.contextmanager
        async def ctx(tag):
            me = next(w.ids)
            await Suspend()
            w.log.append(("entered", me))
            try:
                yield me
            except Boom:
                if not suppress:
                    raise
            finally:
                w.log.append(("exited", me))
                await Suspend()
        manager = ctx("t")
    else:
        class Ctx(a.ContextDecorator):
            async def __aenter__(self):
                await Suspend()
                w.log.append(("entered", "shared"))
                return self

            async def __aexit__(self, et, ev, tb):
                w.log.append(("exited", "shared"))
                await Suspend()
                return suppress and et is not None and issubclass(et, Boom)
        manager = Ctx()

    @manager
    async def work(c, depth=0):
        w.log.append(("body", c))
        await Suspend()
        if recursive and depth == 0:
            await work(f"{c}r", 1)
        if body == "raise":
            raise Boom(c)
        return ("result", c)
    w.out = []

    async def call(c):
        try:
            w.out.append((c, await work(c)))
        except Boom as e:
            w.out.append((c, f"boom {e.args[0]}"))
        except Cancelled:
            w.out.append((c, "cancelled"))
        except BaseException as e:      # noqa: BLE001
            w.out.append((c, f"failed: {e!r}"))
    w.tasks = [call(c) for c in range(n_calls)]

    def check(final):
        bad = []
        for c, r in w.out:
            if isinstance(r, str) and r.startswith("failed"):
                bad.append(f"call {c} {r}")
            if isinstance(r, tuple) and r != ("result", c):
                bad.append(f"call {c} returned {r}")
            if isinstance(r, str) and r.startswith("boom") and (body != "raise" or suppress):
                bad.append(f"call {c} raised although the body returns / the context suppresses")
            if r is None and not (suppress and body == "raise"):
                bad.append(f"call {c} returned None")
        if final:
            entered = [e for e in w.log if e[0] == "entered"]
            exited = [e for e in w.log if e[0] == "exited"]
            bodies = [e for e in w.log if e[0] == "body"]
            if len(entered) != len(exited):
                bad.append(f"{len(entered)} contexts entered, {len(exited)} exited")
            if kind == "generator" and len({e[1] for e in entered}) != len(entered):
                bad.append("two calls shared one generator")
            if len(bodies) > len(entered):
                bad.append(f"{len(bodies)} bodies ran inside {len(entered)} contexts")
        return bad
    w.check = check
    return w


def _deco_one(args):
    kind, n_calls, body, recursive, cancel, limit, suppress = args
    cnt, bad, trace = explore(lambda: deco_scenario(kind, n_calls, body, recursive, suppress), cancel, limit)
    viol = None
    if bad:
        viol = {"scenario": {"manager": kind, "concurrent_calls": n_calls, "body": body, "recursive": recursive, "cancellation": cancel, "context_suppresses": suppress},
                "schedule": [list(c) for c in trace], "what": bad}
    return cnt, cnt >= limit, viol


def decorator(tier="quick"):
    limit = 5000 if tier == "quick" else 20000
    work = [(kind, n, body, rec, cancel, limit, sup) for kind in ("generator", "class") for n in (1, 2, 3) for body in ("return", "raise")
            for rec in (False, True) for cancel in (False, True) for sup in (False, True) if not (rec and n == 3) and not (sup and body == "return")]
    return _run_pool(_deco_one, work, f"1..3 concurrent calls of a decorated coroutine function (generator-based and class-based manager) with suspension points in enter, "
                                      f"body and exit, bodies that return or raise, direct recursion, one cancellation at any suspension point; at most {limit} schedules per scenario")


def _run_pool(fn, work, bound):
    import multiprocessing as mp
    import os
    out = {"schedules": 0, "scenarios": 0, "violations": [], "truncated": 0}
    with mp.get_context("fork").Pool(min(16, os.cpu_count() or 4)) as pool:
        for cnt, trunc, viol in pool.imap_unordered(fn, work, chunksize=2):
            out["schedules"] += cnt
            out["scenarios"] += 1
            out["truncated"] += int(trunc)
            if viol:
                out["violations"].append(viol)
    out["violations"].sort(key=lambda v: (len(v["schedule"]), json.dumps(v["scenario"], default=str)))
    out["violations"] = out["violations"][:5]
    out["bound"] = bound + f" ({out['truncated']} scenarios truncated)"
    return out


if __name__ == "__main__":
    what = sys.argv[1]
    tier = sys.argv[2] if len(sys.argv) > 2 else "quick"
    import warnings
    warnings.simplefilter("ignore", RuntimeWarning)
    print(json.dumps({"tee": tee, "lru": lru, "cached_property": cached_property, "decorator": decorator}[what](tier), default=str))
