#!/venv/bin/python
"""Bounded native differential stand-in (labelled bounded, never counted as proved): the REAL asyncstdlib function
against its CPython counterpart on every small input, for functions a job could not decide because the code left
the interpreter's subset.  Compared: the delivered items / the returned value (by identity of the distinguishable
items), the way the run ends (exhaustion, exception type, and that a source/callable failure surfaces as that very
object).  Bounds: items with keys {0,1,2} and distinct tags, lengths 0..3 (quick) / 0..4 (thorough), one fault at
every source position / the first three callable invocations, consumer steps {0,1,2,len+1}, sync and async flavours of
sources and callables."""
import asyncio
import builtins as _b
import functools as _ft
import heapq as _hq
import itertools as _it
import json
import os
import sys

sys.path.insert(0, os.path.dirname(os.path.abspath(__file__)))
from bounded import K, Boom, seqs, canon_id      # noqa: E402


class Cancel(BaseException):
    """stands for asyncio.CancelledError & co.: not an Exception"""


class Src:
    def __init__(self, items, fail_at=None, fail_with=None):
        self.items, self.fail_at, self.i, self.exc = items, fail_at, 0, None
        self.fail_with = fail_with or Boom
        self.closed, self.ended = 0, False

    def __iter__(self):
        return self

    def __next__(self):
        i = self.i
        self.i += 1
        if self.fail_at == i:
            self.exc = self.fail_with("src")
            raise self.exc
        if i >= len(self.items):
            self.ended = True
            raise StopIteration
        return self.items[i]


class ASrc(Src):
    """class-based async iterator with aclose: stays open when an exception passes through it"""
    def __aiter__(self):
        return self

    async def aclose(self):
        self.closed += 1

    async def __anext__(self):
        try:
            return Src.__next__(self)
        except StopIteration:
            raise StopAsyncIteration from None


class Fn:
    def __init__(self, f, fail_at=None, fail_with=None):
        self.f, self.fail_at, self.n, self.exc = f, fail_at, 0, None
        self.fail_with = fail_with or Boom

    def __call__(self, *a):
        n = self.n
        self.n += 1
        if self.fail_at == n:
            self.exc = self.fail_with("fn")
            raise self.exc
        return self.f(*a)


def aflavour(fn):
    async def call(*a):
        return fn(*a)
    return call


def outcome_exc(e, objs):
    mine = [o.exc for o in objs if getattr(o, "exc", None) is not None]
    return ("raise", type(e).__name__, "same-object" if any(e is m for m in mine) else ("foreign" if mine and isinstance(e, (Boom, Cancel)) else "-"))


def run_sync(call, kind, steps, objs):
    out = []
    try:
        r = call()
        if kind == "gen":
            it = iter(r)
            for _ in range(steps):
                try:
                    out.append(canon_id(next(it)))
                except StopIteration:
                    out.append("stop")
                    break
            return out, ("open",)
        return out, ("return", canon_id(r))
    except BaseException as e:
        return out, outcome_exc(e, objs)


def run_async(call, kind, steps, objs):
    async def main():
        out = []
        try:
            r = call()
            if kind == "gen":
                it = r.__aiter__()
                for _ in range(steps):
                    try:
                        out.append(canon_id(await it.__anext__()))
                    except StopAsyncIteration:
                        out.append("stop")
                        break
                if hasattr(it, "aclose"):
                    await it.aclose()
                return out, ("open",)
            return out, ("return", canon_id(await r))
        except BaseException as e:
            return out, outcome_exc(e, objs)
    return asyncio.run(main())


KEYF = lambda x: K(-x.k, "k")          # noqa: E731   reverses the order, keeps ties
PRED = lambda x: x.k % 2 == 1          # noqa: E731


def variants(name):
    """-> list of (label, n_sources, builder) with builder(srcs, F) -> (args, kwargs); F(f) makes the callable"""
    V = []
    if name in ("min", "max"):
        D = K(7, "default")
        V = [("plain", 1, lambda s, F: ((s[0],), {})), ("key", 1, lambda s, F: ((s[0],), {"key": F(KEYF)})),
             ("default", 1, lambda s, F: ((s[0],), {"default": D})), ("key,default", 1, lambda s, F: ((s[0],), {"key": F(KEYF), "default": D}))]
    elif name == "sorted":
        V = [("plain", 1, lambda s, F: ((s[0],), {})), ("reverse", 1, lambda s, F: ((s[0],), {"reverse": True})),
             ("key", 1, lambda s, F: ((s[0],), {"key": F(KEYF)})), ("key,reverse", 1, lambda s, F: ((s[0],), {"key": F(KEYF), "reverse": True}))]
    elif name in ("nlargest", "nsmallest"):
        for n in (0, 1, 2, 3, 5):
            # heapq.nlargest(n, iterable) but asyncstdlib.heapq.nlargest(iterable, n): `swap` marks the stdlib order
            V.append((f"n={n}", 1, lambda s, F, n=n: ((s[0], n), {})))
            V.append((f"n={n},key", 1, lambda s, F, n=n: ((s[0], n), {"key": F(KEYF)})))
    elif name == "merge":
        for rev in (False, True):
            V.append((f"reverse={rev}", 2, lambda s, F, rev=rev: ((s[0], s[1]), {"reverse": rev})))
            V.append((f"key,reverse={rev}", 2, lambda s, F, rev=rev: ((s[0], s[1]), {"key": F(KEYF), "reverse": rev})))
    elif name in ("all", "any", "list", "tuple", "set", "pairwise", "cycle"):
        V = [("plain", 1, lambda s, F: ((s[0],), {}))]
    elif name == "sum":
        V = [("start", 1, lambda s, F: ((s[0], K(0, "start")), {}))]
    elif name == "dict":
        V = [("pairs", 1, lambda s, F: ((s[0],), {}))]
    elif name == "reduce":
        pick = lambda x, y: y if y.k >= x.k else x      # noqa: E731
        V = [("plain", 1, lambda s, F: ((F(pick), s[0]), {})), ("initial", 1, lambda s, F: ((F(pick), s[0], K(1, "init")), {}))]
    elif name in ("filter", "filterfalse", "takewhile", "dropwhile"):
        V = [("pred", 1, lambda s, F: ((F(PRED), s[0]), {}))]
        if name in ("filter", "filterfalse"):
            V.append(("None", 1, lambda s, F: ((None, s[0]), {})))
    elif name == "map":
        V = [("1", 1, lambda s, F: ((F(lambda x: x), s[0]), {})), ("2", 2, lambda s, F: ((F(lambda x, y: (x, y)), s[0], s[1]), {}))]
    elif name == "starmap":
        V = [("pairs", 1, lambda s, F: ((F(lambda *a: a), s[0]), {}))]
    elif name == "zip":
        V = [("1", 1, lambda s, F: ((s[0],), {})), ("2", 2, lambda s, F: ((s[0], s[1]), {})), ("2,strict", 2, lambda s, F: ((s[0], s[1]), {"strict": True}))]
    elif name == "zip_longest":
        V = [("2", 2, lambda s, F: ((s[0], s[1]), {})), ("2,fill", 2, lambda s, F: ((s[0], s[1]), {"fillvalue": K(9, "fill")}))]
    elif name in ("chain", "compress"):
        V = [("2", 2, lambda s, F: ((s[0], s[1]), {}))]
    elif name == "enumerate":
        V = [("plain", 1, lambda s, F: ((s[0],), {})), ("start", 1, lambda s, F: ((s[0], 5), {}))]
    elif name == "accumulate":
        V = [("plain", 1, lambda s, F: ((s[0],), {})), ("f", 1, lambda s, F: ((s[0], F(lambda x, y: y)), {})),
             ("initial", 1, lambda s, F: ((s[0],), {"initial": K(1, "init")})), ("f,initial", 1, lambda s, F: ((s[0], F(lambda x, y: y)), {"initial": K(1, "init")}))]
    elif name == "batched":
        V = [(f"n={n}", 1, lambda s, F, n=n: ((s[0], n), {})) for n in (1, 2, 3)]
        if sys.version_info >= (3, 13):
            V.append(("n=2,strict", 1, lambda s, F: ((s[0], 2), {"strict": True})))
    elif name == "islice":
        for sl in ((2,), (1, 3), (0, None, 2), (1, 5, 2), (2, 2), (None, 3, 2), (None,), (1, None)):
            V.append((f"{sl}", 1, lambda s, F, sl=sl: ((s[0],) + sl, {})))
    return V


KIND = {n: "coro" for n in ("min", "max", "sorted", "nlargest", "nsmallest", "all", "any", "list", "tuple", "set", "sum", "dict", "reduce")}
STD = {"reduce": _ft.reduce, "merge": _hq.merge, "nlargest": lambda it, n, **kw: _hq.nlargest(n, it, **kw),
       "nsmallest": lambda it, n, **kw: _hq.nsmallest(n, it, **kw)}


def diff(name, tier="quick"):
    import asyncstdlib as a
    afn = getattr(a, name, None) or getattr(a.heapq, name, None)
    sfn = STD.get(name) or getattr(_it, name, None) or getattr(_b, name)
    kind = KIND.get(name, "gen")
    maxlen = 3 if tier == "quick" else 4
    lists = seqs(maxlen)
    short = seqs(2)
    cases, bad, leaks, cleaks = 0, [], [], []
    for label, nsrc, build in variants(name):
        for ks in lists:
            for kb in (short if nsrc == 2 else [[]]):
                A = [K(k, "a%d" % i) for i, k in enumerate(ks)]
                B = [K(k, "b%d" % i) for i, k in enumerate(kb)]
                if name in ("dict",):
                    A = [(x, K(i, "v")) for i, x in enumerate(A)]
                if name == "starmap":
                    A = [(x, x) for x in A]
                n = len(A)
                if name == "accumulate" and not A and "initial" not in label:
                    continue        # documented deviation: asyncstdlib raises TypeError for empty input without initial
                faults = [(None, None)] + [(f, None) for f in range(n + 1)] + [(None, c) for c in range(min(n, 3) + 1)]
                for sfail, cfail in faults:
                    for steps in ((0,) if kind == "coro" else sorted({0, 1, 2, n + len(B) + 1})):
                        def sync_call():
                            srcs = [Src(A, sfail), Src(B)]
                            fns = []
                            def F(f):
                                fns.append(Fn(f, cfail))
                                return fns[-1]
                            args, kw = build(srcs, F)
                            return (lambda: sfn(*args, **kw)), srcs + fns
                        c, objs = sync_call()
                        want = run_sync(c, kind, steps, objs)
                        if cfail is not None and not any(getattr(o, "exc", None) for o in objs if isinstance(o, Fn)) and not any(isinstance(o, Fn) for o in objs):
                            continue        # no callable in this variant
                        for sflav in ("sync", "async"):
                            for fflav in ("sync", "async"):
                                srcs = [(ASrc if sflav == "async" else Src)(A, sfail), (ASrc if sflav == "async" else Src)(B)]
                                fns = []
                                def F(f):
                                    fns.append(Fn(f, cfail))
                                    return aflavour(fns[-1]) if fflav == "async" else fns[-1]
                                args, kw = build(srcs, F)
                                if fflav == "async" and not fns:
                                    continue
                                got = run_async(lambda: afn(*args, **kw), kind, steps, srcs + fns)
                                cases += 1
                                where = (f"{name}[{label}] items={A}{' / ' + str(B) if nsrc == 2 else ''} source fails at {sfail}, callable fails at {cfail}, "
                                         f"{steps} steps, {sflav} source, {fflav} callable")
                                if got != want and len(bad) < 6:
                                    bad.append(f"{where}: asyncstdlib {got} vs CPython {want}")
                                if sflav == "async" and not (kind == "gen" and steps == 0):
                                    # (a generator-based tool that was never advanced owns nothing yet)
                                    used = srcs[:nsrc]
                                    open_ = [i for i, sr in enumerate(used) if not sr.closed and not sr.ended]
                                    if open_ and len(leaks) < 6:
                                        leaks.append(f"{where}: source(s) {open_} neither exhausted nor closed when the call/iterator was finished (ended {got[1]})")
                                    # the same run with a cancellation (a BaseException) instead of the failure
                                    if sfail is not None or cfail is not None:
                                        srcs = [ASrc(A, sfail, Cancel), ASrc(B)]
                                        fns = []
                                        def F(f):
                                            fns.append(Fn(f, cfail, Cancel))
                                            return aflavour(fns[-1]) if fflav == "async" else fns[-1]
                                        args, kw = build(srcs, F)
                                        got2 = run_async(lambda: afn(*args, **kw), kind, steps, srcs + fns)
                                        cases += 1
                                        raised = any(getattr(o, "exc", None) is not None for o in srcs + fns)
                                        open_ = [i for i, sr in enumerate(srcs[:nsrc]) if not sr.closed and not sr.ended]
                                        if open_ and len(cleaks) < 6:
                                            cleaks.append(f"{where} [cancellation instead of the failure]: source(s) {open_} neither exhausted nor closed afterwards (ended {got2[1]})")
                                        if raised and got2[1][:1] == ("raise",) and got2[1][2] != "same-object" and len(cleaks) < 6:
                                            cleaks.append(f"{where} [cancellation instead of the failure]: the cancellation did not propagate unchanged: {got2[1]}")
                                        if raised and got2[1][:1] != ("raise",) and kind == "coro" and len(cleaks) < 6:
                                            cleaks.append(f"{where} [cancellation instead of the failure]: the cancellation was swallowed: {got2[1]}")
    return {"function": name, "cases": cases, "violations": bad, "leaks": leaks, "cancellation": cleaks,
            "bound": f"keys {{0,1,2}}, lengths 0..{maxlen} (second source 0..2), one fault per run (failure or cancellation), sync/async flavours; outputs, "
                     f"ending and release of class-based async sources compared/checked, not the order of requests"}


if __name__ == "__main__":
    print(json.dumps(diff(sys.argv[1], sys.argv[2] if len(sys.argv) > 2 else "quick")))
