#!/venv/bin/python
"""Bounded native stand-in for C20 (label: bounded; never counted as proved): every streaming tool and single-pass
aggregation of the REAL library is fed a stream of N weakly referenced items; the consumer drops what it receives;
after every step the number of source items still alive must not exceed a small constant per source plus the tool's
documented window (batched: n; nlargest/nsmallest: n; merge: one head per source).  Streams with all keys distinct
and with all keys tied (ties are what makes a heap or a buffer grow silently)."""
import asyncio
import gc
import json
import sys
import weakref

SLACK = 3          # per source: the item in flight, the one being compared, one local


class Item:
    __slots__ = ("k", "i", "__weakref__")

    def __init__(self, k, i):
        self.k, self.i = k, i

    def __lt__(self, o):
        return self.k < o.k

    def __gt__(self, o):
        return self.k > o.k

    def __eq__(self, o):
        return isinstance(o, Item) and self.k == o.k

    def __hash__(self):
        return hash(self.k)

    def __bool__(self):
        return True

    def __add__(self, o):
        return self        # sum/accumulate: the total is one of the items

    __radd__ = __add__

    def __iter__(self):      # starmap / dict want iterable items
        return iter((self.k, self.i))


class Meter:
    def __init__(self):
        self.refs = []
        self.worst = 0
        self.where = None

    def new(self, k):
        it = Item(k, len(self.refs))
        self.refs.append(weakref.ref(it))
        return it

    def measure(self, step):
        gc.collect()
        alive = sum(1 for r in self.refs if r() is not None)
        if alive > self.worst:
            self.worst, self.where = alive, step
        return alive


def source(meter, n, key, measure_inside=False, pages=None):
    """async generator of n fresh items; key(i) -> sort key.  With measure_inside the retention is measured right
    before each new item is produced (single-pass aggregations have no consumer steps)."""
    async def gen():
        for i in range(n):
            if measure_inside:
                meter.measure(i)
            yield meter.new(key(i))
        if measure_inside:
            meter.measure(n)
    return gen()


async def drive(meter, it, steps=None):
    n = 0
    async for x in it:
        del x
        n += 1
        meter.measure(n)
        if steps is not None and n >= steps:
            break
    if hasattr(it, "aclose"):
        await it.aclose()


def cases(a, N):
    """-> list of (name, bound, coroutine factory(meter, key))"""
    C = []

    def gen(name, window, build, nsrc=1):
        async def run(meter, key):
            await drive(meter, build(meter, key))
        C.append((name, nsrc * SLACK + window, run))

    def agg(name, window, build, nsrc=1):
        async def run(meter, key):
            r = await build(meter, key)
            del r
        C.append((name, nsrc * SLACK + window, run))
    S = lambda m, k, inside=False: source(m, N, k, inside)       # noqa: E731
    gen("filter", 0, lambda m, k: a.filter(lambda x: x.i % 2, S(m, k)))
    gen("map", 0, lambda m, k: a.map(lambda x: x, S(m, k)))
    gen("enumerate", 0, lambda m, k: a.enumerate(S(m, k)))
    gen("zip", 0, lambda m, k: a.zip(S(m, k), S(m, k)), 2)
    gen("zip_longest", 0, lambda m, k: a.zip_longest(S(m, k), source(m, N // 2, k)), 2)
    gen("accumulate", 1, lambda m, k: a.accumulate(S(m, k), lambda x, y: y))
    gen("batched", 4, lambda m, k: a.batched(S(m, k), 4))
    gen("chain", 0, lambda m, k: a.chain(S(m, k), S(m, k)), 2)
    gen("compress", 0, lambda m, k: a.compress(S(m, k), S(m, k)), 2)
    gen("dropwhile", 0, lambda m, k: a.dropwhile(lambda x: x.i < 5, S(m, k)))
    gen("filterfalse", 0, lambda m, k: a.filterfalse(lambda x: x.i % 2, S(m, k)))
    gen("islice", 0, lambda m, k: a.islice(S(m, k), 3, None, 2))
    gen("pairwise", 1, lambda m, k: a.pairwise(S(m, k)))
    gen("starmap", 0, lambda m, k: a.starmap(lambda p, q: None, S(m, k)))
    gen("takewhile", 0, lambda m, k: a.takewhile(lambda x: True, S(m, k)))
    gen("merge", 2, lambda m, k: a.heapq.merge(source(m, N, lambda i: i), source(m, N, lambda i: i) if k(1) else source(m, N, lambda i: 0)), 2)

    def from_iterable(m, k):
        # the outer stream's items are the pages; a page owns its records
        async def page():
            for _ in range(2):
                yield m.new(0)

        async def pages():
            for _ in range(N // 2):
                p = page()
                m.refs.append(weakref.ref(p))
                yield p
        return a.chain.from_iterable(pages())
    gen("chain.from_iterable", 1, from_iterable)

    async def groupby_keys(m, k):
        n = 0
        async for key, grp in a.groupby(source(m, N, lambda i: i // 3), key=lambda x: x.k):
            del grp
            n += 1
            m.measure(n)
    C.append(("groupby", SLACK + 1, groupby_keys))
    I = lambda m, k: source(m, N, k, True)     # noqa: E731
    agg("all", 0, lambda m, k: a.all(I(m, k)))
    agg("any", 0, lambda m, k: a.any(a.map(lambda x: False and x, I(m, k))))
    agg("sum", 1, lambda m, k: a.sum(I(m, k), m.new(0)))
    agg("min", 1, lambda m, k: a.min(I(m, k)))
    agg("max", 1, lambda m, k: a.max(I(m, k)))
    agg("min[key]", 1, lambda m, k: a.min(I(m, k), key=lambda x: x.k))
    agg("reduce", 1, lambda m, k: a.reduce(lambda x, y: y, I(m, k)))
    agg("nlargest", 4, lambda m, k: a.heapq.nlargest(I(m, k), 4))
    agg("nsmallest", 4, lambda m, k: a.heapq.nsmallest(I(m, k), 4))
    agg("nlargest[key]", 4, lambda m, k: a.heapq.nlargest(I(m, k), 4, key=lambda x: x.k))
    agg("nsmallest[key]", 4, lambda m, k: a.heapq.nsmallest(I(m, k), 4, key=lambda x: x.k))
    return C


def main(tier="quick"):
    import asyncstdlib as a
    out = {"cases": 0, "violations": [], "worst": {}}
    sizes = (60,) if tier == "quick" else (60, 400)
    keyings = {"distinct keys": (lambda i: i), "all keys tied": (lambda i: 0), "descending keys": (lambda i: -i)}
    for N in sizes:
        for kname, key in keyings.items():
            for name, bound, run in cases(a, N):
                meter = Meter()
                try:
                    asyncio.run(run(meter, key))
                except Exception as e:      # noqa: BLE001
                    out["violations"].append(f"{name} [{kname}, {N} items]: harness failure {e!r}")
                    continue
                out["cases"] += 1
                out["worst"][name] = max(out["worst"].get(name, 0), meter.worst)
                if meter.worst > bound and len(out["violations"]) < 8:
                    out["violations"].append(f"{name} [{kname}, stream of {N} items]: {meter.worst} source items alive at step {meter.where}; bound {bound} "
                                             f"(small constant per source + documented window)")
    out["bound"] = f"streams of {list(sizes)} items, keys distinct / all tied / descending, measured after every consumer step (aggregations: before every pull)"
    return out


if __name__ == "__main__":
    print(json.dumps(main(sys.argv[1] if len(sys.argv) > 1 else "quick")))
