#!/venv/bin/python
"""Native replay harness (runs under /venv/bin/python, imports the working tree through PYTHONPATH).

`--scenario -` : read a JSON payload {impl, ref, kind, args, kwargs, scenario:{trace, model}} on stdin, build
real objects from the scenario (scripted sources, callables, items whose comparisons follow the solver model),
run the REAL asyncstdlib function and the reference function (contracts/refs, plain Python validated against
CPython) and compare event logs, outcomes and source release.  Prints one JSON line; exit 1 iff a difference
is confirmed."""
import asyncio
import importlib
import json
import os
import re
import sys

HERE = os.path.dirname(os.path.abspath(__file__))
sys.path.insert(0, os.path.dirname(HERE))


class UserError(Exception):
    pass


class Cancelled(BaseException):
    pass


class World:
    """shared script + log of one run"""
    def __init__(self, scen, model):
        self.model = model or {}
        self.items = {}
        self.log = []
        self.ops = []

    def item(self, name):
        rep = self.model.get("same", {}).get(name, name)
        if rep not in self.items:
            self.items[rep] = Item(rep, self)
        return self.items[rep]


class Item:
    def __init__(self, name, world):
        self.name, self.w = name, world

    def __repr__(self):
        return f"<{self.name}>"

    def __bool__(self):
        return bool(self.w.model.get("truthy", {}).get(self.name, True))

    def _rel(self, rel, other, default):
        if not isinstance(other, Item):
            return NotImplemented
        return bool(self.w.model.get(rel, {}).get(self.name, {}).get(other.name, default))

    def __lt__(self, other):
        return self._rel("lt", other, False)

    def __gt__(self, other):
        if not isinstance(other, Item):
            return NotImplemented
        return other._rel("lt", self, False)

    def __eq__(self, other):
        if other is self:
            return True
        if other is None:
            return bool(self.w.model.get("eq_none", {}).get(self.name, False))
        if not isinstance(other, Item):
            return NotImplemented
        a, b = sorted([self.name, other.name])
        return bool(self.w.model.get("eq", {}).get(a, {}).get(b, False))

    def __ne__(self, other):
        r = self.__eq__(other)
        return r if r is NotImplemented else not r

    def __hash__(self):
        self.w.oplog(("hash", self.name))
        return 0

    def _op(self, opname, other):
        return self.w.do_op(opname, self, other)

    def __add__(self, other):
        return self._op("add", other)

    def __radd__(self, other):
        return self.w.do_op("add", other, self)

    def __iadd__(self, other):
        return self._op("iadd", other)

    def __iter__(self):
        return iter(self.w.do_op("unpack", self, None))


class AwaitableItem(Item):
    """an item that is itself awaitable (shape `items awaitable` of the adapters)"""
    def __await__(self):
        self.w.log.append(("await", self.name))
        return self.w.item(self.name + "_awaited", plain=True)
        yield

    def __resolve__(self):
        self.w.log.append(("await", self.name))
        return self.w.item(self.name + "_awaited", plain=True)


class Run:
    """one execution (impl or ref) against the scripted environment"""
    def __init__(self, scen, model, sync):
        self.sync = sync
        self.model = model or {}
        self.items = {}
        self.log = []
        self.src_answers = {}
        self.fn_answers = {}
        self.op_answers = []
        self.consumer = []
        self.sources = {}
        for ev, ans in scen.get("trace") or []:
            if ev.startswith("pull "):
                self.src_answers.setdefault(ev[5:], []).append(ans)
            elif ev.startswith("call "):
                fn = ev[5:].split("(")[0]
                self.fn_answers.setdefault(fn, []).append(ans)
            elif ev.startswith("op "):
                self.op_answers.append((ev[3:].split("(")[0], ans))
            elif ev.startswith("yield "):
                self.consumer.append(ans)
            elif ev.startswith("await "):
                self.fn_answers.setdefault("<await>", []).append(ans)
        self.op_pos = 0

    # model access -----------------------------------------------------
    items_awaitable = False

    def item(self, name, plain=False):
        rep = self.model.get("same", {}).get(name, name)
        if rep not in self.items:
            cls = AwaitableItem if (self.items_awaitable and not plain) else Item
            self.items[rep] = cls(rep, self)
        return self.items[rep]

    def oplog(self, e):
        self.log.append(e)

    def do_op(self, opname, a, b):
        self.log.append(("op", opname, repr(a), repr(b)))
        if self.op_pos < len(self.op_answers):
            exp, ans = self.op_answers[self.op_pos]
            self.op_pos += 1
        else:
            exp, ans = opname, "ok"
        if ans.startswith("raise"):
            raise self.exc(ans, ("op", self.op_pos))
        if opname == "unpack":
            return tuple(self.item(f"part{self.op_pos}_{i}") for i in range(2))
        return self.item(f"{opname}_res{self.op_pos}")

    def exc(self, ans, ident):
        cls = Cancelled if "Cancelled" in ans else UserError
        key = ("exc", ident)
        if key not in self.items:
            self.items[key] = cls(str(ident))
        return self.items[key]

    # environment objects ---------------------------------------------------
    def answer_pull(self, name, k):
        ans = self.src_answers.get(name, [])
        return ans[k] if k < len(ans) else "end"

    def source(self, name, has_aclose=True, kind="gen"):
        run = self
        state = {"k": 0, "closed": False, "done": False, "pulled": False}
        self.sources[name] = (state, has_aclose)

        def step():
            if state["done"] or state["closed"]:
                return ("end", None)
            k = state["k"]
            state["k"] += 1
            state["pulled"] = True
            a = run.answer_pull(name, k)
            run.log.append(("pull", name, a.split()[0]))
            if a.startswith("item"):
                return ("item", run.item(a.split()[1]))
            state["done"] = True
            if a == "end":
                state["exhausted"] = True
                return ("end", None)
            return ("raise", run.exc(a, ("src", name, k)))

        if self.sync or kind == "sync":
            class SyncIt:
                def __iter__(s):
                    return s

                def __next__(s):
                    kind_, v = step()
                    if kind_ == "item":
                        return v
                    if kind_ == "end":
                        raise StopIteration
                    raise v
            return SyncIt()

        class AsyncIt:
            def __aiter__(s):
                return s

            async def __anext__(s):
                kind_, v = step()
                if kind_ == "item":
                    return v
                if kind_ == "end":
                    raise StopAsyncIteration
                raise v
        if has_aclose:
            async def aclose(s):
                run.log.append(("aclose", name))
                state["closed"] = True
            AsyncIt.aclose = aclose
        return AsyncIt()

    def fn(self, name):
        run = self
        st = {"k": 0}

        def call(*args, **kwargs):
            k = st["k"]
            st["k"] += 1
            ans = run.fn_answers.get(name, [])
            a = ans[k] if k < len(ans) else f"ret {name}_dflt{k}"
            run.log.append(("call", name, tuple(repr(x) for x in args), a.split()[0]))
            if a.startswith("ret"):
                return run.item(a.split()[1])
            raise run.exc(a, ("call", name, k))
        return call


def build_args(run, specs):
    out = []
    for sp in specs:
        out.append(build_arg(run, sp))
    return out


def build_arg(run, sp):
    k = sp["kind"]
    if k == "source":
        return run.source(sp["name"], sp.get("has_aclose", True), sp.get("src_kind", "gen"))
    if k == "fn":
        return run.fn(sp["name"])
    if k == "val":
        return run.item(sp["name"])
    if k == "int":
        return int(run.model.get("ints", {}).get(sp["name"], sp.get("default", 0)))
    if k == "const":
        return sp["value"]
    if k == "none":
        return None
    raise ValueError(k)


def outcome_repr(kind, v):
    if kind == "raise":
        if isinstance(v, (UserError, Cancelled)):
            return ("raise-env", type(v).__name__, str(v))
        n = type(v).__name__
        return ("raise", "Stop" if n in ("StopIteration", "StopAsyncIteration") else n)
    return ("return", canon(v))


def canon(v):
    if isinstance(v, Item):
        return repr(v)
    if isinstance(v, (list, tuple)):
        return [type(v).__name__] + [canon(x) for x in v]
    if isinstance(v, dict):
        return ["dict"] + [[canon(a), canon(b)] for a, b in v.items()]
    if isinstance(v, (set, frozenset)):
        return ["set", len(v)]
    return repr(v)


async def drive_impl(run, fn, args, kwargs, kind, max_steps):
    try:
        r = fn(*args, **kwargs)
        if kind != "gen":
            v = await r
            return ("return", v)
        if hasattr(r, "__aiter__"):
            it = r.__aiter__()
        else:
            it = r
    except BaseException as e:
        return ("raise", e)
    steps = 0
    while True:
        try:
            v = await it.__anext__()
        except BaseException as e:
            return ("raise", e)
        run.log.append(("yield", canon(v)))
        ans = run.consumer[steps] if steps < len(run.consumer) else "resume"
        steps += 1
        if ans == "close":
            try:
                await it.aclose()
            except BaseException as e:
                return ("close-raised", e)
            return ("closed", None)
        if steps >= max_steps:
            return ("cut", None)


def drive_ref(run, fn, args, kwargs, kind, max_steps):
    try:
        r = fn(*args, **kwargs)
        if kind != "gen":
            return ("return", r)
        it = iter(r)
    except BaseException as e:
        return ("raise", e)
    steps = 0
    while True:
        try:
            v = next(it)
        except BaseException as e:
            return ("raise", e)
        run.log.append(("yield", canon(v)))
        ans = run.consumer[steps] if steps < len(run.consumer) else "resume"
        steps += 1
        if ans == "close":
            return ("closed", None)
        if steps >= max_steps:
            return ("cut", None)


class GroupByNative:
    """native counterpart of contracts.jobs_classes.GroupByProtocol"""
    @staticmethod
    async def aperform(H, op):
        if op == "next(G)":
            key, grp = await H["self"].__anext__()
            if "cur" in H:
                H["stale"] = H["cur"]
            H["cur"] = grp
            return ("group", canon(key))
        g = H["cur"] if op == "next(cur)" else H["stale"]
        return ("item", canon(await g.__anext__()))

    @staticmethod
    def perform(H, op):
        if op == "next(G)":
            key, grp = next(H["self"])
            if "cur" in H:
                H["stale"] = H["cur"]
            H["cur"] = grp
            return ("group", canon(key))
        g = H["cur"] if op == "next(cur)" else H["stale"]
        return ("item", canon(next(g)))


PROTOCOLS = {"groupby": GroupByNative}


class KeyboardInterruptLike(KeyboardInterrupt):
    pass


class UserBaseError(BaseException):
    pass


def replay_exitstack(payload):
    """C14: the scenario's history of registrations / unwinding on asyncstdlib.ExitStack and on the real
    contextlib.AsyncExitStack, with scripted context managers and exit callables"""
    import contextlib
    import asyncstdlib
    scen = payload["scenario"]
    trace = scen.get("trace") or []
    ops = [ans for ev, ans in trace if ev == "op"]
    cm_answers = {}
    fn_answers = {}
    for ev, ans in trace:
        m = re.match(r"(cm\d+)\.(enter|exit)\(", ev)
        if m:
            cm_answers.setdefault((m.group(1), m.group(2)), []).append(ans)
        m = re.match(r"call (exit\d+|cb\d+)\(", ev)
        if m:
            fn_answers.setdefault(m.group(1), []).append(ans)

    class Block(BaseException):
        pass

    def run(kind):
        log = []
        excs = {}

        def exc_for(tag, cls=UserError):
            if tag not in excs:
                excs[tag] = cls(tag)
            return excs[tag]

        def name_of(e):
            if e is None:
                return None
            for t, x in excs.items():
                if x is e:
                    return t
            return type(e).__name__

        def answer(q, default):
            lst = q
            return lst.pop(0) if lst else default

        answers_cm = {k: list(v) for k, v in cm_answers.items()}
        answers_fn = {k: list(v) for k, v in fn_answers.items()}

        def do_enter(nm):
            a = answer(answers_cm.get((nm, "enter"), []), "ret v")
            log.append((nm, "enter"))
            if a.startswith("raise"):
                raise exc_for(nm + ".enter")
            return nm + "-value"

        def do_exit(nm, et, ev, tb):
            a = answer(answers_cm.get((nm, "exit"), []), "falsy")
            log.append((nm, "exit", name_of(ev)))
            if a == "raise":
                raise exc_for(nm + ".exit")
            if a == "cancel":
                raise exc_for(nm + ".exit-cancel", Cancelled)
            return a == "truthy"

        class ACM:
            def __init__(s, nm):
                s.nm = nm

            async def __aenter__(s):
                return do_enter(s.nm)

            async def __aexit__(s, et, ev, tb):
                return do_exit(s.nm, et, ev, tb)

        class SCM:
            def __init__(s, nm):
                s.nm = nm

            def __enter__(s):
                return do_enter(s.nm)

            def __exit__(s, et, ev, tb):
                return do_exit(s.nm, et, ev, tb)

        def exit_fn(nm):
            def f(et, ev, tb):
                a = answer(answers_fn.get(nm, []), "ret x")
                log.append((nm, "called", name_of(ev)))
                if a.startswith("raise"):
                    raise exc_for(nm + ".raise")
                return False
            return f

        def cb_fn(nm):
            def f(arg):
                a = answer(answers_fn.get(nm, []), "ret x")
                log.append((nm, "callback", arg))
                if a.startswith("raise"):
                    raise exc_for(nm + ".raise")
                return True
            return f

        async def main():
            S = asyncstdlib.ExitStack() if kind == "impl" else contextlib.AsyncExitStack()
            T = None
            k = 0
            out = []
            for op in ops:
                try:
                    if op == "registered":
                        out.append((op, "ok"))
                        continue
                    if op.startswith("enter:") or op.startswith("push:") or op == "callback":
                        k += 1
                    if op == "enter:acm":
                        cm = ACM(f"cm{k}")
                        r = await (S.enter_context(cm) if kind == "impl" else S.enter_async_context(cm))
                    elif op == "enter:scm":
                        cm = SCM(f"cm{k}")
                        r = (await S.enter_context(cm)) if kind == "impl" else S.enter_context(cm)
                    elif op == "push:acm":
                        cm = ACM(f"cm{k}")
                        r = S.push(cm) if kind == "impl" else S.push_async_exit(cm)
                        r = None
                    elif op == "push:scm":
                        r = S.push(SCM(f"cm{k}"))
                        r = None
                    elif op == "push:fn":
                        S.push(exit_fn(f"exit{k}"))
                        r = None
                    elif op == "callback":
                        S.callback(cb_fn(f"cb{k}"), f"arg{k}")
                        r = None
                    elif op == "pop_all":
                        T = S.pop_all()
                        r = None
                    elif op == "aclose":
                        await S.aclose()
                        r = None
                    else:
                        target = T if op.startswith("leaveT") else S
                        if op.endswith("none"):
                            r = bool(await target.__aexit__(None, None, None))
                        else:
                            e = exc_for("block", Block)
                            r = bool(await target.__aexit__(type(e), e, None))
                    out.append((op, "ok", r))
                except BaseException as e:
                    out.append((op, "raise", name_of(e)))
            return out
        return asyncio.run(main()), log
    a, alog = run("impl")
    b, blog = run("ref")
    diffs = []
    if a != b:
        for i, (x, y) in enumerate(zip(a, b)):
            if x != y:
                diffs.append(f"operation {i} {x[0]}: asyncstdlib.ExitStack {x[1:]} vs contextlib.AsyncExitStack {y[1:]}")
                break
    if alog != blog:
        diffs.append(f"exit calls differ: asyncstdlib {alog} vs contextlib {blog}")
    return {"confirmed": bool(diffs), "differences": diffs[:3], "operations": ops}


def replay_contextmanager(payload):
    """C13: build a REAL async generator function that answers anext/athrow/aclose as the scenario says, run
    asyncstdlib.contextmanager and contextlib.asynccontextmanager around it for the scenario's block outcome"""
    import contextlib
    import asyncstdlib
    scen = payload["scenario"]
    answers = [ans for ev, ans in (scen.get("trace") or []) if ev.startswith("gen ")]
    oc = payload["job"].split("[")[1].rstrip("]")
    first = answers[0] if answers else "yield"
    second = answers[1] if len(answers) > 1 else "stop"

    def make():
        async def genfunc():
            if first == "stop":
                return
            if first == "raise":
                raise UserError("enter")
            try:
                yield "value"
            except GeneratorExit:
                if second == "raise-ignored":
                    yield "again"
                if second == "raise":
                    raise UserError("closing")
                raise
            except BaseException as e:
                if second == "stop":
                    return
                if second == "raise-same":
                    raise
                if second == "raise-new":
                    raise UserError("new")
                if second == "raise-rt-cause":
                    raise RuntimeError("wrapped") from e
                if second == "raise-same-type":
                    raise type(e)()
                if second == "yield":
                    yield "again"
            else:
                if second == "yield":
                    yield "again"
                elif second == "raise":
                    raise UserError("exit")
        return genfunc
    classes = {"UserError": UserError, "UserBaseError": UserBaseError, "StopIteration": StopIteration, "StopAsyncIteration": StopAsyncIteration,
               "RuntimeError": RuntimeError, "GeneratorExit": GeneratorExit, "KeyboardInterrupt": KeyboardInterrupt}

    async def run(factory):
        cm = factory(make())()
        log = []
        try:
            v = await cm.__aenter__()
            log.append(("entered", v))
        except BaseException as e:
            return log + [("enter-raised", type(e).__name__)]
        if oc == "none":
            args = (None, None, None)
            exc = None
        else:
            exc = classes[oc]("block")
            args = (type(exc), exc, None)
        try:
            r = await cm.__aexit__(*args)
            log.append(("suppress", bool(r)))
        except BaseException as e:
            log.append(("raised", "the block's exception" if e is exc else type(e).__name__,
                        "cause is block exception" if e.__cause__ is exc and exc is not None else ""))
        return log
    a = asyncio.run(run(asyncstdlib.contextmanager))
    if oc == "GeneratorExit":
        # the property's deliberate difference: closed, and the same object propagates
        if second in ("ok", "stop"):
            b = [("entered", "value"), ("suppress", False)]
        else:
            b = None
    else:
        b = asyncio.run(run(contextlib.asynccontextmanager))
    diffs = [] if (b is None or a == b) else [f"asyncstdlib.contextmanager: {a} vs contextlib.asynccontextmanager/spec: {b}"]
    return {"confirmed": bool(diffs), "differences": diffs, "generator_answers": answers, "block_outcome": oc,
            "impl_results": [str(x) for x in a], "ref_results": [str(x) for x in (b or [])]}


def exc_repr(e):
    if isinstance(e, (UserError, Cancelled)):
        return ("raise-env", type(e).__name__, str(e))
    n = type(e).__name__
    return ("raise", "Stop" if n in ("StopIteration", "StopAsyncIteration") else n)


async def drive_protocol_impl(run, fn, args, kwargs, proto, ops):
    H = {"self": fn(*args, **kwargs)}
    out = []
    for op in ops:
        try:
            out.append((op, "ok", await proto.aperform(H, op)))
        except BaseException as e:
            out.append((op,) + exc_repr(e))
    return out


def drive_protocol_ref(run, fn, args, kwargs, proto, ops):
    H = {"self": fn(*args, **kwargs)}
    out = []
    for op in ops:
        try:
            out.append((op, "ok", proto.perform(H, op)))
        except BaseException as e:
            out.append((op,) + exc_repr(e))
    return out


def resolve(modname, qual, package):
    m = importlib.import_module(f"{package}.{modname}")
    v = m
    for part in qual.split("."):
        v = getattr(v, part)
    return v


def replay_scenario(payload):
    scen = payload["scenario"]
    model = scen.get("model") or {}
    kind = payload["kind"]
    impl = resolve(payload["impl"][0], payload["impl"][1], "asyncstdlib")
    ref = resolve(payload["ref"][0], payload["ref"][1], "contracts.refs")
    nyield = sum(1 for ev, _ in (scen.get("trace") or []) if ev.startswith("yield "))
    max_steps = nyield + 3
    ri = Run(scen, model, sync=False)
    rr = Run(scen, model, sync=True)
    ri.items_awaitable = rr.items_awaitable = bool(((payload.get("opts") or {}).get("val_protocols") or {}).get("__await__"))
    ia = build_args(ri, payload["args"]["iargs"])
    ik = {k: build_arg(ri, v) for k, v in payload["args"].get("ikw", {}).items()}
    ra = build_args(rr, payload["args"]["rargs"])
    rk = {k: build_arg(rr, v) for k, v in payload["args"].get("rkw", {}).items()}
    if kind == "protocol" and payload["job"].startswith("contextmanager["):
        return replay_contextmanager(payload)
    if kind == "protocol" and payload["job"].startswith("ExitStack["):
        return replay_exitstack(payload)
    if kind == "protocol":
        proto = PROTOCOLS.get(payload["job"].split("[")[0])
        if proto is None:
            return {"confirmed": False, "error": f"no native protocol for job {payload['job']}"}
        ops = [ans for ev, ans in (scen.get("trace") or []) if ev == "op"]
        ires = asyncio.run(drive_protocol_impl(ri, impl, ia, ik, proto, ops))
        rres = drive_protocol_ref(rr, ref, ra, rk, proto, ops)
        diffs = [f"operation {i} {a[0]}: impl {a[1:]} vs reference {b[1:]}" for i, (a, b) in enumerate(zip(ires, rres)) if str(a) != str(b)][:3]
        return {"confirmed": bool(diffs), "differences": diffs, "operations": ops, "impl_results": [str(x) for x in ires], "ref_results": [str(x) for x in rres],
                "impl_log": [list(map(str, e)) for e in ri.log][:60], "ref_log": [list(map(str, e)) for e in rr.log][:60]}
    async def impl_main():
        out = await drive_impl(ri, impl, ia, ik, kind, max_steps)
        # look at the sources NOW: when the event loop shuts down it finalises abandoned async generators, which
        # would close leaked sources behind our back
        ri.open_now = [name for name, (st, has_aclose) in ri.sources.items()
                       if has_aclose and st["pulled"] and not (st["closed"] or st.get("exhausted"))]
        return out
    io = asyncio.run(impl_main())
    ro = drive_ref(rr, ref, ra, rk, kind, max_steps)
    ilog = [e for e in ri.log if e[0] not in ("aclose",)]
    rlog = list(rr.log)
    diffs = []
    n = min(len(ilog), len(rlog))
    for i in range(n):
        if list(map(str, ilog[i])) != list(map(str, rlog[i])):
            diffs.append(f"event {i}: impl {ilog[i]} vs reference {rlog[i]}")
            break
    else:
        if len(ilog) != len(rlog) and not (io[0] == "cut" or ro[0] == "cut" or (io[0] == "closed" and len(ilog) < len(rlog))):
            extra = ilog[n:] if len(ilog) > n else rlog[n:]
            diffs.append(f"event {n}: {'impl' if len(ilog) > n else 'reference'} additionally does {extra[0]}")
    if io[0] in ("return", "raise") and ro[0] in ("return", "raise"):
        a, b = outcome_repr(*io), outcome_repr(*ro)
        if a != b:
            diffs.append(f"outcome: impl {a} vs reference {b}")
    elif io[0] == "close-raised":
        diffs.append(f"closing the iterator raised {io[1]!r}")
    elif (io[0] in ("return", "raise")) != (ro[0] in ("return", "raise")) and "cut" not in (io[0], ro[0]):
        diffs.append(f"outcome: impl {io[0]} vs reference {ro[0]}")
    leaks = list(getattr(ri, "open_now", [])) if io[0] != "cut" else []
    if leaks:
        diffs.append(f"sources left open by the impl: {leaks}")
    return {"confirmed": bool(diffs), "differences": diffs, "impl_log": [list(map(str, e)) for e in ri.log][:60],
            "ref_log": [list(map(str, e)) for e in rr.log][:60], "impl_outcome": str(outcome_repr(*io)) if io[0] in ("return", "raise") else io[0],
            "ref_outcome": str(outcome_repr(*ro)) if ro[0] in ("return", "raise") else ro[0]}


def enumerate_contextmanager():
    """bounded native stand-in for C13: every combination of generator behaviour (answer to the first anext, answer to
    athrow/aclose/second anext) and block outcome, real asyncstdlib.contextmanager against contextlib.asynccontextmanager"""
    outcomes = ["none", "UserError", "UserBaseError", "StopIteration", "StopAsyncIteration", "RuntimeError", "GeneratorExit", "KeyboardInterrupt"]
    firsts = ["yield", "stop", "raise"]
    seconds = ["stop", "raise-same", "raise-new", "raise-rt-cause", "raise-same-type", "yield", "raise", "raise-ignored", "ok"]
    bad = []
    cases = 0
    for oc in outcomes:
        for f in firsts:
            for sec in seconds:
                if oc == "GeneratorExit" and f != "yield":
                    continue        # a failing enter does not depend on the block outcome (covered by the other outcomes)
                payload = {"job": f"contextmanager[{oc}]", "scenario": {"trace": [["gen first", f], ["gen second", sec]]}}
                try:
                    r = replay_contextmanager(payload)
                except BaseException as e:      # noqa: BLE001
                    r = {"confirmed": True, "differences": [f"harness failure {e!r}"]}
                cases += 1
                if r["confirmed"] and len(bad) < 6:
                    bad.append(f"block outcome {oc}, generator answers ({f}, {sec}): {r['differences'][0][:400]}")
    return {"cases": cases, "violations": bad,
            "bound": "3 answers to the first anext x 9 answers to the closing athrow/aclose/anext x 8 block outcomes (the whole abstract domain of the C13 jobs, natively)"}


def main():
    if "--enumerate-contextmanager" in sys.argv:
        import warnings
        warnings.simplefilter("ignore")
        print(json.dumps(enumerate_contextmanager(), default=str))
        sys.exit(0)
    if "--scenario" in sys.argv:
        payload = json.load(sys.stdin)
        sys.path.insert(0, payload.get("repo", "/repo"))
        try:
            res = replay_scenario(payload)
        except Exception:
            import traceback
            res = {"confirmed": False, "error": "native harness crashed: " + traceback.format_exc()[-1500:]}
        print(json.dumps(res, default=str))
        sys.exit(1 if res["confirmed"] else 0)
    print("usage: native.py --scenario -")
    sys.exit(2)


if __name__ == "__main__":
    main()
