#!/venv/bin/python
"""Bounded native stand-ins (labelled bounded in the evidence; never counted as proved)."""
import functools
import itertools
import json
import sys


def callkey():
    from asyncstdlib._lrucache import CallKey
    vals = [1, 1.0, True, "1", (1, 2), None, 2, "a"]
    pats = []
    for npos in range(0, 3):
        for pos in itertools.product(vals, repeat=npos):
            pats.append((pos, ()))
            for kv in vals:
                pats.append((pos, (("x", kv),)))
            if npos <= 1:
                for kv1, kv2 in itertools.product(vals[:5], repeat=2):
                    pats.append((pos, (("x", kv1), ("y", kv2))))
                    pats.append((pos, (("y", kv2), ("x", kv1))))
    violations = []
    cases = 0
    for typed in (False, True):
        ik = [CallKey.from_call(p, dict(k), typed) for p, k in pats]
        rk = [functools._make_key(p, dict(k), typed) for p, k in pats]
        for i in range(len(pats)):
            for j in range(i, len(pats)):
                cases += 1
                a = (ik[i] == ik[j]) and (hash(ik[i]) == hash(ik[j]))
                b = (rk[i] == rk[j]) and (hash(rk[i]) == hash(rk[j]))
                if a != b and len(violations) < 10:
                    violations.append(f"typed={typed}: patterns {pats[i]} and {pats[j]}: asyncstdlib keys {'equal' if a else 'differ'}, functools keys {'equal' if b else 'differ'}")
    return {"cases": cases, "violations": violations}


if __name__ == "__main__":
    what = sys.argv[1]
    print(json.dumps({"callkey": callkey}[what]()))
