#!/venv/bin/python
"""Bounded native stand-ins (labelled bounded in the evidence; never counted as proved)."""
import functools
import itertools
import json
import sys


def callkey():
    from asyncstdlib._lrucache import CallKey
    vals = [1, 1.0, True, "1", (1, 2), None, 2, "a"]
    pats = []
    for npos in range(0, 3):
        for pos in itertools.product(vals, repeat=npos):
            pats.append((pos, ()))
            for kv in vals:
                pats.append((pos, (("x", kv),)))
            if npos <= 1:
                for kv1, kv2 in itertools.product(vals[:5], repeat=2):
                    pats.append((pos, (("x", kv1), ("y", kv2))))
                    pats.append((pos, (("y", kv2), ("x", kv1))))
    violations = []
    cases = 0
    for typed in (False, True):
        ik = [CallKey.from_call(p, dict(k), typed) for p, k in pats]
        rk = [functools._make_key(p, dict(k), typed) for p, k in pats]
        for i in range(len(pats)):
            for j in range(i, len(pats)):
                cases += 1
                a = (ik[i] == ik[j]) and (hash(ik[i]) == hash(ik[j]))
                b = (rk[i] == rk[j]) and (hash(rk[i]) == hash(rk[j]))
                if a != b and len(violations) < 10:
                    violations.append(f"typed={typed}: patterns {pats[i]} and {pats[j]}: asyncstdlib keys {'equal' if a else 'differ'}, functools keys {'equal' if b else 'differ'}")
    return {"cases": cases, "violations": violations}




# =====================================================================================================
# reference validation: contracts/refs/* (plain Python) against the real CPython functions
# =====================================================================================================
import builtins as _b
import itertools as _it


class K:
    """comparable by key only; distinguishable by tag"""
    def __init__(self, k, tag):
        self.k, self.tag = k, tag

    def __lt__(self, o):
        return self.k < o.k

    def __gt__(self, o):
        return self.k > o.k

    def __eq__(self, o):
        return isinstance(o, K) and self.k == o.k

    def __hash__(self):
        return hash(self.k)

    def __bool__(self):
        return self.k != 0

    def __add__(self, o):
        return K(self.k + o.k, f"({self.tag}+{o.tag})")

    def __repr__(self):
        return f"{self.k}{self.tag}"


class Boom(Exception):
    pass


class Src:
    def __init__(self, name, items, log, fail_at=None):
        self.name, self.items, self.log, self.fail_at, self.i = name, items, log, fail_at, 0

    def __iter__(self):
        return self

    def __next__(self):
        i = self.i
        self.i += 1
        if self.fail_at == i:
            self.log.append(("pull", self.name, "raise"))
            raise Boom(self.name)
        if i >= len(self.items):
            self.log.append(("pull", self.name, "end"))
            raise StopIteration
        self.log.append(("pull", self.name, "item"))
        return self.items[i]


def Fn(name, log, f, fail_at=None):
    st = {"n": 0}

    def call(*a):
        n = st["n"]
        st["n"] += 1
        log.append(("call", name, tuple((x.k, x.tag) if isinstance(x, K) else x for x in a)))
        if fail_at == n:
            raise Boom(name)
        return f(*a)
    return call


def run_case(fn, mkargs, steps, kind):
    log = []
    try:
        args, kw = mkargs(log)
        r = fn(*args, **kw)
        if kind == "gen":
            it = iter(r)
            out = []
            for _ in range(steps):
                try:
                    v = next(it)
                except StopIteration:
                    out.append("stop")
                    break
                log.append(("yield", canon_id(v)))
            return log, ("gen",)
        return log, ("return", canon_id(r))
    except BaseException as e:
        return log, ("raise", type(e).__name__)


def canon_id(v):
    if isinstance(v, K):
        return ("K", v.k, v.tag)
    if isinstance(v, (list, tuple)):
        return (type(v).__name__,) + tuple(canon_id(x) for x in v)
    if isinstance(v, (set, frozenset)):
        return ("set", tuple(sorted((x.k, x.tag) for x in v)))
    if isinstance(v, dict):
        return ("dict", tuple((canon_id(a), canon_id(b)) for a, b in v.items()))
    return v


def norm_log(log):
    """A5: a pull on a source that already answered `end`/`raise` is not an observable event"""
    done = set()
    out = []
    for e in log:
        if e[0] == "pull":
            if e[1] in done:
                continue
            if e[2] in ("end", "raise"):
                done.add(e[1])
        out.append(e)
    return out


def seqs(maxlen, keys=(0, 1, 2)):
    out = [[]]
    for n in range(1, maxlen + 1):
        for ks in itertools.product(keys, repeat=n):
            out.append(list(ks))
    return out


def refs(tier="quick"):
    import functools as _ft
    from contracts.refs import ref_builtins as rb, ref_itertools as ri, ref_functools as rf
    maxlen = 3 if tier == "quick" else 4
    lists = seqs(maxlen)
    short = seqs(2)
    cases = 0
    bad = []

    def compare(name, ref, real, mk, kind, steps=(8,), faults=True):
        nonlocal cases
        for st in steps:
            a = run_case(ref, mk, st, kind)
            b = run_case(real, mk, st, kind)
            a, b = (norm_log(a[0]), a[1]), (norm_log(b[0]), b[1])
            cases += 1
            if a != b and len(bad) < 10:
                bad.append(f"{name}: reference {a} vs CPython {b}")

    pred = lambda x: x.k % 2 == 1
    INIT, DFLT = K(9, "init"), K(7, "d")
    for ks in lists:
        items = [K(k, chr(97 + i)) for i, k in enumerate(ks)]
        n = len(items)
        for fail in [None] + list(range(n + 1)):
            for cfail in [None] + list(range(min(n, 3))):
                if fail is not None and cfail is not None:
                    continue
                S = lambda log, nm="a": Src(nm, items, log, fail)
                P = lambda log, nm="p", f=pred: Fn(nm, log, f, cfail)
                for st in (0, 1, 2, n + 1):
                    compare("filter", rb.filter, _b.filter, lambda log: ((P(log), S(log)), {}), "gen", (st,))
                    compare("filterfalse", ri.filterfalse, _it.filterfalse, lambda log: ((P(log), S(log)), {}), "gen", (st,))
                    compare("takewhile", ri.takewhile, _it.takewhile, lambda log: ((P(log), S(log)), {}), "gen", (st,))
                    compare("dropwhile", ri.dropwhile, _it.dropwhile, lambda log: ((P(log), S(log)), {}), "gen", (st,))
                    compare("map1", rb.map, _b.map, lambda log: ((Fn("f", log, lambda x: x, cfail), S(log)), {}), "gen", (st,))
                    if cfail is None:
                        compare("filter-None", rb.filter, _b.filter, lambda log: ((None, S(log)), {}), "gen", (st,))
                        compare("enumerate", rb.enumerate, _b.enumerate, lambda log: ((S(log), 5), {}), "gen", (st,))
                        compare("pairwise", ri.pairwise, _it.pairwise, lambda log: ((S(log),), {}), "gen", (st,))
                        compare("cycle", ri.cycle, _it.cycle, lambda log: ((S(log),), {}), "gen", (st + n,))
                        compare("chain1", ri.chain, _it.chain, lambda log: ((S(log),), {}), "gen", (st,))
                        for nb in (1, 2):
                            compare("batched", ri.batched, _it.batched, lambda log: ((S(log), nb), {}), "gen", (st,))
                        for sl in ((2,), (1, 3), (0, None, 2), (1, 5, 2), (2, 2), (None, 3, 2)):
                            compare(f"islice{sl}", ri.islice, _it.islice, lambda log: ((S(log),) + sl, {}), "gen", (st,))
                    compare("accumulate-f", lambda it, f, initial: ri.accumulate(it, f, initial=initial), lambda it, f, initial: _it.accumulate(it, f, initial=initial),
                            lambda log: ((S(log), Fn("f", log, lambda x, y: y, cfail), INIT), {}), "gen", (st,))
                if True:
                    for key in (None, "key"):
                        mkkw = lambda log: ({"key": Fn("key", log, lambda x: K(-x.k, "k"), cfail)} if key else {})
                        if key is None and cfail is not None:
                            continue
                        compare("min", rb.min, _b.min, lambda log: ((S(log),), mkkw(log)), "coro")
                        compare("max", rb.max, _b.max, lambda log: ((S(log),), mkkw(log)), "coro")
                        compare("min-default", rb.min, _b.min, lambda log: ((S(log),), dict(mkkw(log), default=DFLT)), "coro")
                        compare("max-default", rb.max, _b.max, lambda log: ((S(log),), dict(mkkw(log), default=DFLT)), "coro")
                    if cfail is None:
                        compare("all", rb.all, _b.all, lambda log: ((S(log),), {}), "coro")
                        compare("any", rb.any, _b.any, lambda log: ((S(log),), {}), "coro")
                        compare("sum", rb.sum, _b.sum, lambda log: ((S(log), K(0, "start")), {}), "coro")
                        compare("list", rb.list_, _b.list, lambda log: ((S(log),), {}), "coro")
                        compare("tuple", rb.tuple_, _b.tuple, lambda log: ((S(log),), {}), "coro")
                        for rev in (False, True):
                            # result only (asyncstdlib interleaves key calls with pulls; C02 speaks of the result)
                            a = rb.sorted_(list(items), key=lambda x: x.k, reverse=rev)
                            b = _b.sorted(list(items), key=lambda x: x.k, reverse=rev)
                            a2 = rb.sorted_(list(items), reverse=rev)
                            b2 = _b.sorted(list(items), reverse=rev)
                            cases += 2
                            if [id(x) for x in a] != [id(x) for x in b] or [id(x) for x in a2] != [id(x) for x in b2]:
                                bad.append(f"sorted reverse={rev} {items}")
                    compare("reduce", rf.reduce, _ft.reduce, lambda log: ((Fn("f", log, lambda x, y: y if y.k >= x.k else x, cfail), S(log)), {}), "coro")
                    compare("reduce-init", rf.reduce, _ft.reduce, lambda log: ((Fn("f", log, lambda x, y: y, cfail), S(log), K(5, "i")), {}), "coro")
    for ka in short:
        for kb in short:
            A = [K(k, "a%d" % i) for i, k in enumerate(ka)]
            B = [K(k, "b%d" % i) for i, k in enumerate(kb)]
            for fa in [None] + list(range(len(A) + 1)):
                for st in (0, 1, 3):
                    two = lambda log: (Src("a", A, log, fa), Src("b", B, log))
                    compare("zip", rb.zip, _b.zip, lambda log: (two(log), {}), "gen", (st,))
                    compare("zip-strict", lambda *a: rb.zip(*a, strict=True), lambda *a: _b.zip(*a, strict=True), lambda log: (two(log), {}), "gen", (st,))
                    compare("zip_longest", lambda *a: ri.zip_longest(*a, fillvalue=None), lambda *a: _it.zip_longest(*a, fillvalue=None), lambda log: (two(log), {}), "gen", (st,))
                    compare("chain2", ri.chain, _it.chain, lambda log: (two(log), {}), "gen", (st,))
                    compare("compress", ri.compress, _it.compress, lambda log: (two(log), {}), "gen", (st,))
                    compare("map2", rb.map, _b.map, lambda log: ((Fn("f", log, lambda x, y: x),) + two(log), {}), "gen", (st,))
    # groupby under operation histories
    import random
    rnd = random.Random(1)
    for trial in range(400 if tier == "quick" else 3000):
        ks = [rnd.randint(0, 2) for _ in range(rnd.randint(0, 7))]
        ops = [rnd.choice("GGgs") for _ in range(rnd.randint(1, 12))]
        outs = []
        for cls in (ri.groupby, _it.groupby):
            items = [K(k, "i%d" % i) for i, k in enumerate(ks)]
            g = cls(iter(items), key=lambda x: x.k) if trial % 2 else cls(iter(items))
            cur = stale = None
            o = []
            for op in ops:
                try:
                    if op == "G":
                        k, grp = next(g)
                        stale, cur = cur, grp
                        o.append(("G", k if not isinstance(k, K) else k.k))
                    elif op == "g" and cur is not None:
                        o.append(("g", repr(next(cur))))
                    elif op == "s" and stale is not None:
                        o.append(("s", repr(next(stale))))
                except StopIteration:
                    o.append((op, "stop"))
            outs.append(o)
        cases += 1
        if outs[0] != outs[1] and len(bad) < 10:
            bad.append(f"groupby {ks} {ops}: reference {outs[0]} vs CPython {outs[1]}")
    # abstract LRU view against functools.lru_cache
    from contracts.refs import ref_lru
    for trial in range(300 if tier == "quick" else 2000):
        maxsize = rnd.choice([None, -1, 0, 1, 2, 3])
        ops = [rnd.choice(["k0", "k1", "k2", "k3", "info", "clear", "fail"]) for _ in range(rnd.randint(1, 25))]
        calls = [[], []]

        def make(i):
            def f(k):
                calls[i].append(k)
                if k == 99:
                    raise Boom("f")
                return ("v", k, len(calls[i]))
            return f
        real = _ft.lru_cache(maxsize=maxsize)(make(0))
        spec = ref_lru.lru_cache(maxsize)(make(1))
        o = [[], []]
        for op in ops:
            for i, c in enumerate((real, spec)):
                try:
                    if op.startswith("k"):
                        o[i].append(c(int(op[1])))
                    elif op == "fail":
                        o[i].append(c(99))
                    elif op == "info":
                        o[i].append(tuple(c.cache_info()))
                    else:
                        c.cache_clear()
                except Boom:
                    o[i].append("boom")
        cases += 1
        if (o[0] != o[1] or calls[0] != calls[1]) and len(bad) < 10:
            bad.append(f"lru maxsize={maxsize} {ops}: functools {o[0]} vs spec {o[1]}")
    # lru_cache used as a method / classmethod / staticmethod: keyed on the instance, one shared store and statistics
    import asyncio
    import asyncstdlib as a
    for trial in range(150 if tier == "quick" else 800):
        maxsize = rnd.choice([None, 0, 1, 2, 3])
        typed = rnd.choice([False, True])
        # m/c/s: async def method, classmethod, staticmethod; p/o: the other flavours of the wrapped callable used as
        # a method (a functools.partial of a coroutine function, an object whose call returns an awaitable)
        ops = [(rnd.choice(["m", "c", "s", "p", "o", "info", "clear"]), rnd.randint(0, 1), rnd.choice([1, 1.0, 2, "1"])) for _ in range(rnd.randint(1, 20))]

        def build(deco, is_async):
            calls = []
            if is_async:
                async def _p(self, x):
                    calls.append(("p", x)); return ("p", x, len(calls))

                class CO:
                    async def __call__(self_, self, x):
                        calls.append(("o", x)); return ("o", x, len(calls))
            else:
                def _p(self, x):
                    calls.append(("p", x)); return ("p", x, len(calls))

                class CO:
                    def __call__(self_, self, x):
                        calls.append(("o", x)); return ("o", x, len(calls))
            if is_async:
                class C:
                    p = deco(_ft.partial(_p))
                    o = deco(CO())

                    @deco
                    async def m(self, x):
                        calls.append(("m", x)); return ("m", id(self) % 7 * 0, x, len(calls))
                    @classmethod
                    @deco
                    async def c(cls, x):
                        calls.append(("c", x)); return ("c", x, len(calls))
                    @staticmethod
                    @deco
                    async def s(x):
                        calls.append(("s", x)); return ("s", x, len(calls))
            else:
                class C:
                    p = deco(_ft.partial(_p))
                    o = deco(CO())

                    @deco
                    def m(self, x):
                        calls.append(("m", x)); return ("m", id(self) % 7 * 0, x, len(calls))
                    @classmethod
                    @deco
                    def c(cls, x):
                        calls.append(("c", x)); return ("c", x, len(calls))
                    @staticmethod
                    @deco
                    def s(x):
                        calls.append(("s", x)); return ("s", x, len(calls))
            return C, calls
        CA, calls_a = build(a.lru_cache(maxsize=maxsize, typed=typed), True)
        CS, calls_s = build(_ft.lru_cache(maxsize=maxsize, typed=typed), False)

        async def drive_async():
            objs = [CA(), CA()]
            out = []
            for op, i, x in ops:
                o = objs[i]
                if op in "mcspo":
                    try:
                        out.append(await getattr(o, op)(x))
                    except Exception as e:      # noqa: BLE001
                        out.append(("raised", type(e).__name__))
                elif op == "info":
                    out.append(tuple(CA.m.cache_info()))
                else:
                    CA.m.cache_clear()
            return out

        def drive_sync():
            objs = [CS(), CS()]
            out = []
            for op, i, x in ops:
                o = objs[i]
                if op in "mcspo":
                    try:
                        out.append(getattr(o, op)(x))
                    except Exception as e:      # noqa: BLE001
                        out.append(("raised", type(e).__name__))
                elif op == "info":
                    out.append(tuple(CS.m.cache_info()))
                else:
                    CS.m.cache_clear()
            return out
        ra, rs = asyncio.run(drive_async()), drive_sync()
        cases += 1
        if (ra != rs or calls_a != calls_s) and len(bad) < 10:
            bad.append(f"lru methods maxsize={maxsize} typed={typed} {ops}: asyncstdlib {ra} vs functools {rs}")
    return {"cases": cases, "violations": [b for b in bad if not b.startswith("lru methods")],
            "lru_method_violations": [b for b in bad if b.startswith("lru methods")]}


def groupby_native(tier="quick"):
    """bounded native stand-in for C16: the REAL asyncstdlib.groupby against itertools.groupby under random histories of
    {advance the groupby, advance the current group, advance any retained older group handle}, keys incl. None"""
    import asyncio
    import random
    import asyncstdlib as a
    rnd = random.Random(7)
    bad = []
    cases = 0
    for trial in range(1500 if tier == "quick" else 12000):
        keys = [rnd.choice([0, 1, 2, None]) for _ in range(rnd.randint(0, 8))]
        ops = [rnd.choice("GGgso") for _ in range(rnd.randint(1, 14))]
        keyed = trial % 2
        asrc = trial % 3 == 0

        def sync_run():
            items = [K(k if k is not None else -1, "i%d" % i) for i, k in enumerate(keys)]
            kf = (lambda x: keys[int(x.tag[1:])]) if keyed else None
            g = _it.groupby(iter(items), key=kf) if keyed else _it.groupby(iter([keys[int(x.tag[1:])] for x in items]))
            cur = None
            old = []
            o = []
            for op in ops:
                try:
                    if op == "G":
                        k, grp = next(g)
                        if cur is not None:
                            old.append(cur)
                        cur = grp
                        o.append(("G", repr(k)))
                    elif op == "g" and cur is not None:
                        o.append(("g", repr(next(cur))))
                    elif op == "s" and old:
                        o.append(("s", repr(next(old[-1]))))
                    elif op == "o" and old:
                        o.append(("o", repr(next(old[0]))))
                except StopIteration:
                    o.append((op, "stop"))
            return o

        async def async_run():
            items = [K(k if k is not None else -1, "i%d" % i) for i, k in enumerate(keys)]

            async def agen(xs):
                for x in xs:
                    yield x
            data = items if keyed else [keys[int(x.tag[1:])] for x in items]
            src = agen(data) if asrc else iter(data)
            kf = (lambda x: keys[int(x.tag[1:])]) if keyed else None
            if keyed and trial % 4 == 1:
                sync_kf = kf

                async def kf(x):        # noqa: F811
                    return sync_kf(x)
            g = a.groupby(src, key=kf) if keyed else a.groupby(src)
            cur = None
            old = []
            o = []
            for op in ops:
                try:
                    if op == "G":
                        k, grp = await g.__anext__()
                        if cur is not None:
                            old.append(cur)
                        cur = grp
                        o.append(("G", repr(k)))
                    elif op == "g" and cur is not None:
                        o.append(("g", repr(await cur.__anext__())))
                    elif op == "s" and old:
                        o.append(("s", repr(await old[-1].__anext__())))
                    elif op == "o" and old:
                        o.append(("o", repr(await old[0].__anext__())))
                except StopAsyncIteration:
                    o.append((op, "stop"))
                except Exception as e:      # noqa: BLE001
                    o.append((op, "raised " + type(e).__name__))
            return o
        want = sync_run()
        got = asyncio.run(async_run())
        cases += 1
        if want != got and len(bad) < 6:
            bad.append(f"groupby keys={keys} ops={''.join(ops)} keyed={bool(keyed)} async source={asrc}: asyncstdlib {got} vs itertools {want}")
    return {"cases": cases, "violations": bad,
            "bound": "random histories (<= 14 operations) over <= 8 items with keys {0,1,2,None}; key absent / sync / async; list and async-generator sources"}


if __name__ == "__main__":
    import os
    sys.path.insert(0, os.path.dirname(os.path.dirname(os.path.abspath(__file__))))
    what = sys.argv[1]
    if what == "refs":
        print(json.dumps(refs(sys.argv[2] if len(sys.argv) > 2 else "quick")))
    else:
        print(json.dumps({"callkey": callkey, "groupby": lambda: groupby_native(sys.argv[2] if len(sys.argv) > 2 else "quick")}[what]()))
