"""Reference semantics of the itertools counterparts: transcriptions of CPython 3.12/3.13
Modules/itertoolsmodule.c as plain synchronous Python (validated by contracts/validate_refs.py)."""
from ._support import Sentinel

NOINITIAL = Sentinel("<no initial>")


def cycle(iterable):
    saved = []
    for element in iterable:
        saved.append(element)
        yield element
    if not saved:
        return
    while True:
        for element in saved:
            yield element


def accumulate(iterable, function=None, *, initial=NOINITIAL):
    # accumulate_next; documented deviation of asyncstdlib: empty input without initial raises TypeError
    it = iter(iterable)
    if initial is NOINITIAL:
        try:
            total = next(it)
        except StopIteration:
            raise TypeError("accumulate() of empty sequence with no initial value")
    else:
        total = initial
    yield total
    for value in it:
        if function is None:
            total = total + value
        else:
            total = function(total, value)
        yield total


def batched(iterable, n, strict=False):
    # batched_next (3.13 incl. strict)
    if n < 1:
        raise ValueError("n must be at least one")
    it = iter(iterable)
    while True:
        batch = []
        for _ in range(n):
            try:
                batch.append(next(it))
            except StopIteration:
                break
        if not batch:
            return
        if strict and len(batch) < n:
            raise ValueError("batched(): incomplete batch")
        yield tuple(batch)


def chain(*iterables):
    for iterable in iterables:
        for item in iterable:
            yield item


def chain_from_iterable(iterables):
    for iterable in iterables:
        for item in iterable:
            yield item


def compress(data, selectors):
    # compress_next: datum first, then selector
    d = iter(data)
    s = iter(selectors)
    while True:
        try:
            datum = next(d)
        except StopIteration:
            return
        try:
            selector = next(s)
        except StopIteration:
            return
        if selector:
            yield datum


def dropwhile(predicate, iterable):
    iterator = iter(iterable)
    for x in iterator:
        if not predicate(x):
            yield x
            break
    for x in iterator:
        yield x


def filterfalse(predicate, iterable):
    if predicate is None:
        for x in iterable:
            if not x:
                yield x
    else:
        for x in iterable:
            if not predicate(x):
                yield x


def islice(iterable, *args):
    # islice_next
    s = slice(*args)
    start = s.start or 0
    stop = s.stop
    step = s.step or 1
    it = iter(iterable)
    nxt = start
    cnt = 0
    while True:
        while cnt < nxt:
            try:
                next(it)
            except StopIteration:
                return
            cnt += 1
        if stop is not None and cnt >= stop:
            return
        try:
            item = next(it)
        except StopIteration:
            return
        cnt += 1
        nxt += step
        if stop is not None and nxt > stop:
            nxt = stop
        yield item


def starmap(function, iterable):
    for args in iterable:
        yield function(*args)


def takewhile(predicate, iterable):
    for x in iterable:
        if not predicate(x):
            break
        yield x


def pairwise(iterable):
    iterator = iter(iterable)
    try:
        a = next(iterator)
    except StopIteration:
        return
    for b in iterator:
        yield a, b
        a = b


def zip_longest(*iterables, fillvalue=None):
    # zip_longest_next
    if not iterables:
        return
    its = [iter(it) for it in iterables]
    active = len(its)
    while True:
        values = []
        i = 0
        for it in its:
            if it is None:
                values.append(fillvalue)
            else:
                try:
                    values.append(next(it))
                except StopIteration:
                    active -= 1
                    if active == 0:
                        return
                    its[i] = None
                    values.append(fillvalue)
            i += 1
        yield tuple(values)


NOKEY = Sentinel("<no key>")
NOVALUE = Sentinel("<no value>")


class groupby:
    """transcription of groupbyobject / _grouperobject of CPython's itertoolsmodule.c"""

    def __init__(self, iterable, key=None):
        self.keyfunc = key
        self.it = iter(iterable)
        self.tgtkey = NOKEY
        self.currkey = NOKEY
        self.currvalue = NOVALUE
        self.currgrouper = None

    def __iter__(self):
        return self

    def _step(self):
        newvalue = next(self.it)
        if self.keyfunc is None:
            newkey = newvalue
        else:
            newkey = self.keyfunc(newvalue)
        self.currvalue = newvalue
        self.currkey = newkey

    def __next__(self):
        self.currgrouper = None
        # skip to next iteration group
        while True:
            if self.currkey is NOKEY:
                pass
            elif self.tgtkey is NOKEY:
                break
            elif not (self.tgtkey == self.currkey):
                break
            self._step()
        self.tgtkey = self.currkey
        grouper = _grouper(self, self.tgtkey)
        self.currgrouper = grouper
        return (self.currkey, grouper)


class _grouper:
    def __init__(self, parent, tgtkey):
        self.parent = parent
        self.tgtkey = tgtkey

    def __iter__(self):
        return self

    def __next__(self):
        gbo = self.parent
        if gbo.currgrouper is not self:
            raise StopIteration
        if gbo.currvalue is NOVALUE:
            gbo._step()
        if not (self.tgtkey == gbo.currkey):
            raise StopIteration
        r = gbo.currvalue
        gbo.currvalue = NOVALUE
        return r
