"""support for the reference functions (plain synchronous Python, executable natively and interpreted by pyvc)"""


class Sentinel:
    def __init__(self, name):
        self.name = name

    def __repr__(self):
        return self.name


def await_(value):
    """marks the point where the asynchronous original awaits `value` (interpreted as an Await event by pyvc;
    natively the scripted awaitables of the replay harness are resolved here)"""
    resolve = getattr(value, "__resolve__", None)
    return resolve() if resolve is not None else value
