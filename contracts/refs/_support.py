"""support for the reference functions (plain synchronous Python, executable natively and interpreted by pyvc)"""


class Sentinel:
    def __init__(self, name):
        self.name = name

    def __repr__(self):
        return self.name
