"""Deliberately WRONG references: each must be refuted by the engine on every run (vacuity / soundness canaries)."""


def filter_yield_before_test(function, iterable):
    # wrong: yields every item, then calls the predicate
    for item in iterable:
        yield item
        function(item)


def max_last_of_ties(iterable):
    # wrong: keeps the last of several equal maxima
    have = False
    best = None
    for item in iterable:
        if not have:
            best = item
            have = True
        elif not (item < best):
            best = item
    if not have:
        raise ValueError("empty")
    return best


def enumerate_no_release(iterable, start=0):
    n = start
    for elem in iterable:
        yield n, elem
        n += 2
