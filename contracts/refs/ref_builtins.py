"""Reference semantics of the builtins counterparts: transcriptions of CPython 3.12
Python/bltinmodule.c, Objects/enumobject.c, Objects/iterobject.c as plain synchronous Python.
Validated against the running CPython by contracts/validate_refs.py (bounded, differential)."""
from ._support import Sentinel

NODEFAULT = Sentinel("<no default>")


def filter(function, iterable):
    # filter_next: PyObject_IsTrue(item) when func is None or bool, else call
    it = iter(iterable)
    if function is None:
        for item in it:
            if item:
                yield item
    else:
        for item in it:
            if function(item):
                yield item


def enumerate(iterable, start=0):
    n = start
    for elem in iterable:
        yield n, elem
        n += 1


def iter_sentinel(subject, sentinel):
    # calliter_iternext: result = callable(); stop when sentinel == result
    while True:
        value = subject()
        if value == sentinel:
            return
        yield value


def map(function, *iterables):
    # map_next: fetch one item of every iterator in order, then call
    its = [iter(it) for it in iterables]
    while True:
        args = []
        for it in its:
            try:
                args.append(next(it))
            except StopIteration:
                return
        yield function(*args)


def zip(*iterables, strict=False):
    # zip_next incl. the strict length check
    if not iterables:
        return
    its = [iter(it) for it in iterables]
    while True:
        items = []
        i = 0
        for it in its:
            try:
                items.append(next(it))
            except StopIteration:
                if not strict:
                    return
                if i > 0:
                    raise ValueError("zip() argument is shorter")
                j = 0
                for other in its:
                    if j > 0:
                        try:
                            next(other)
                        except StopIteration:
                            pass
                        else:
                            raise ValueError("zip() argument is longer")
                    j += 1
                return
            i += 1
        yield tuple(items)


def all(iterable):
    for element in iterable:
        if not element:
            return False
    return True


def any(iterable):
    for element in iterable:
        if element:
            return True
    return False


def sum(iterable, start=0):
    # builtin_sum_impl (generic path): result = start; result = result + item
    total = start
    for item in iterable:
        total = total + item
    return total


def max(iterable, *, key=None, default=NODEFAULT):
    # min_max with op=Py_GT: the first of several maxima is kept; default is returned untouched
    maxitem = None
    maxval = None
    have = False
    for item in iterable:
        if key is not None:
            val = key(item)
        else:
            val = item
        if not have:
            maxitem = item
            maxval = val
            have = True
        elif val > maxval:
            maxval = val
            maxitem = item
    if not have:
        if default is not NODEFAULT:
            return default
        raise ValueError("max() arg is an empty sequence")
    return maxitem


def min(iterable, *, key=None, default=NODEFAULT):
    maxitem = None
    maxval = None
    have = False
    for item in iterable:
        if key is not None:
            val = key(item)
        else:
            val = item
        if not have:
            maxitem = item
            maxval = val
            have = True
        elif val < maxval:
            maxval = val
            maxitem = item
    if not have:
        if default is not NODEFAULT:
            return default
        raise ValueError("min() arg is an empty sequence")
    return maxitem


def list_(iterable=()):
    return [element for element in iterable]


def tuple_(iterable=()):
    return (*[element for element in iterable],)


def set_(iterable=()):
    return {element for element in iterable}


def dict_(iterable=()):
    return {key: value for key, value in iterable}


def sorted_(iterable, *, key=None, reverse=False):
    # result of builtins.sorted: a new list, stably sorted by key(item) (list.sort contract).
    # NOTE: key calls are interleaved with the pulls here (asyncstdlib computes the key of each item
    # as it arrives; builtins.sorted first exhausts the iterable) - C02 speaks of the result only.
    if key is None:
        items = [item for item in iterable]
        items.sort(reverse=reverse)
        return items
    keyed = [(key(item), item) for item in iterable]
    keyed.sort(key=lambda ki: ki[0], reverse=reverse)
    return [item for _, item in keyed]
