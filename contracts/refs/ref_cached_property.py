"""Specification of C12 (sequential part), written from the property: an instance attribute slot is ABSENT, a
placeholder (handed out by an access while nothing is cached) or a cached value."""
from ._support import Sentinel, await_

ABSENT = Sentinel("<absent>")


class Value:
    def __init__(self, value):
        self.value = value


class Placeholder:
    pass


class InstanceSpec:
    def __init__(self, getter, instance):
        self.getter = getter
        self.instance = instance
        self.slot = ABSENT

    def access(self):
        # only an access while nothing is cached creates a (new) placeholder
        if self.slot is ABSENT:
            self.slot = Placeholder()
        return self.slot

    def await_handle(self, handle):
        if isinstance(handle, Value):
            return handle.value
        stored = self.slot
        if stored is ABSENT:
            stored = self.access()          # deleted in the meantime: start over through the descriptor
        if stored is handle:
            value = await_(self.getter(self.instance))      # a failing getter stores nothing
            self.slot = Value(value)
            return value
        return self.await_handle(stored)    # a value cached meanwhile, or the placeholder that replaced ours

    def delete(self):
        if self.slot is ABSENT:
            raise AttributeError("data")
        self.slot = ABSENT


class Spec:
    def __init__(self, getter):
        self.getter = getter

    def instance(self, token):
        return InstanceSpec(self.getter, token)


def cached_property(getter):
    return Spec(getter)
