"""Specification of the asynctools adapters (C19).  `await_(x)` marks where the async original awaits."""
from ._support import await_


def any_iter(x, arg_awaitable, items_awaitable):
    iterable = await_(x) if arg_awaitable else x
    for item in iterable:
        if items_awaitable:
            yield await_(item)
        else:
            yield item


def await_each(awaitables):
    for awaitable in awaitables:
        yield await_(awaitable)


def apply(func, *args, **kwargs):
    # all positional arguments are awaited in order, then the keyword arguments in order, then one call
    pos = [await_(arg) for arg in args]
    kw = {k: await_(arg) for k, arg in kwargs.items()}
    return func(*pos, **kw)


def sync_identity(function):
    return function


def sync_call(function, returns_awaitable, *args):
    result = function(*args)
    if returns_awaitable:
        return await_(result)
    return result


def iterate(x):
    for item in x:
        yield item


def call_twice(function, returns_awaitable, a, b):
    r1 = function(a)
    if returns_awaitable:
        r1 = await_(r1)
    r2 = function(b)
    if returns_awaitable:
        r2 = await_(r2)
    return (r1, r2)


class BorrowSpec:
    """C07: a borrowed handle forwards next() to the underlying iterator until it is closed; closing it never
    reaches the underlying iterator"""

    def __init__(self, underlying):
        self.underlying = underlying
        self.closed = False

    def __iter__(self):
        return self

    def __next__(self):
        if self.closed:
            raise StopIteration
        return next(self.underlying)

    def close(self):
        self.closed = True

    def throw(self, exc):
        # forwarded to the underlying iterator while the handle is open (by design); a closed handle only re-raises
        if self.closed or not hasattr(self.underlying, "throw"):
            raise exc
        return self.underlying.throw(exc)


    def send(self, value):
        # forwarded like throw(); a closed handle yields nothing more
        if self.closed or not hasattr(self.underlying, "send"):
            raise StopIteration
        return self.underlying.send(value)


def borrow(iterator):
    return BorrowSpec(iterator)


class ScopedSpec(BorrowSpec):
    """C08: the handle of a scope cannot be closed from inside the block"""

    def close(self):
        pass

    def _end(self):
        self.closed = True


class ScopeSpec:
    def __init__(self, iterable):
        self.iterator = iter(iterable)
        self.handle = None

    def __enter__(self):
        self.handle = ScopedSpec(self.iterator)
        return self.handle

    def __exit__(self, typ, value, tb):
        self.handle._end()
        # the underlying iterator is closed here, exactly once, by the outermost scope only (checked on the
        # source's close counter: a nested scope's iterator is the outer handle, whose close() does nothing)
        close = getattr(self.iterator, "close", None)
        if close is not None:
            close()
        return False


def scoped_iter(iterable):
    return ScopeSpec(iterable)
