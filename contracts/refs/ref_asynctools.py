"""Specification of the asynctools adapters (C19).  `await_(x)` marks where the async original awaits."""
from ._support import await_


def any_iter(x, arg_awaitable, items_awaitable):
    iterable = await_(x) if arg_awaitable else x
    for item in iterable:
        if items_awaitable:
            yield await_(item)
        else:
            yield item


def await_each(awaitables):
    for awaitable in awaitables:
        yield await_(awaitable)


def apply(func, *args, **kwargs):
    # all positional arguments are awaited in order, then the keyword arguments in order, then one call
    pos = [await_(arg) for arg in args]
    kw = {k: await_(arg) for k, arg in kwargs.items()}
    return func(*pos, **kw)


def sync_identity(function):
    return function


def sync_call(function, returns_awaitable, *args):
    result = function(*args)
    if returns_awaitable:
        return await_(result)
    return result


def iterate(x):
    for item in x:
        yield item


def call_twice(function, returns_awaitable, a, b):
    r1 = function(a)
    if returns_awaitable:
        r1 = await_(r1)
    r2 = function(b)
    if returns_awaitable:
        r2 = await_(r2)
    return (r1, r2)
