"""Specification of C10: functools.lru_cache as an abstract LRU view, over call patterns.

`order` lists [pattern, value] from least to most recently used.  Written from Lib/functools.py
(_lru_cache_wrapper: hit -> move to the most recent end, miss -> call, store unless maxsize == 0, evict the least
recently used entry when full; errors are never stored) and validated differentially against the real
functools.lru_cache (contracts/validate_refs.py)."""
from ._support import await_


class LRUSpec:
    def __init__(self, func, maxsize, typed):
        self.func = func
        if maxsize is not None and maxsize < 0:
            maxsize = 0
        self.maxsize = maxsize
        self.typed = typed
        self.order = []
        self.hits = 0
        self.misses = 0

    def _find(self, key):
        i = 0
        for entry in self.order:
            if entry[0] is key:
                return i
            i += 1
        return -1

    def __call__(self, key):
        if self.maxsize == 0:
            self.misses += 1
            return await_(self.func(key))
        i = self._find(key)
        if i >= 0:
            entry = self.order[i]
            if self.maxsize is not None:
                # bounded cache: a hit makes the entry the most recently used (the unbounded wrapper keeps no order)
                self.order.pop(i)
                self.order.append(entry)
            self.hits += 1
            return entry[1]
        self.misses += 1
        result = await_(self.func(key))
        if self.maxsize is not None and len(self.order) >= self.maxsize:
            self.order.pop(0)
        self.order.append([key, result])
        return result

    def cache_info(self):
        return (self.hits, self.misses, self.maxsize, len(self.order))

    def cache_parameters(self):
        return {"maxsize": self.maxsize, "typed": self.typed}

    def cache_clear(self):
        self.order.clear()
        self.hits = 0
        self.misses = 0

    def cache_discard(self, key):
        i = self._find(key)
        if i >= 0:
            self.order.pop(i)


def lru_cache(maxsize=128, typed=False):
    def decorator(func):
        return LRUSpec(func, maxsize, typed)
    return decorator
