"""Specification of C15 (written from the property): a decorated call = enter a FRESH context, run the body,
exit with the body's exception if any, return the result / propagate unless suppressed."""
from ._support import await_
from .ref_contextlib import SpecContextManager


def decorated_call_generator_manager(genfunc, func, arg):
    # creating the manager instantiates one generator (as contextlib does); every call then gets its own
    genfunc()
    cm = SpecContextManager(genfunc())
    cm.__aenter__()
    try:
        result = await_(func(arg))
    except BaseException as exc:
        if not cm.__aexit__(type(exc), exc, exc.__traceback__):
            raise
        return None
    cm.__aexit__(None, None, None)
    return result


def decorated_call_class_manager(cm, func, arg):
    cm.__enter__()
    try:
        result = await_(func(arg))
    except BaseException as exc:
        if not cm.__exit__(type(exc), exc, exc.__traceback__):
            raise
        return None
    cm.__exit__(None, None, None)
    return result
