"""functools.reduce: the pure-Python fallback of CPython's Lib/functools.py"""
from ._support import Sentinel

_initial_missing = Sentinel("<initial missing>")


def reduce(function, sequence, initial=_initial_missing):
    it = iter(sequence)
    if initial is _initial_missing:
        try:
            value = next(it)
        except StopIteration:
            raise TypeError("reduce() of empty iterable with no initial value") from None
    else:
        value = initial
    for element in it:
        value = function(value, element)
    return value
