"""Specification of C14: an exit stack IS the equivalent nested `with` statements.

`__aexit__` below is the fold of the with-statement semantics of the language reference (section 8.5) over the
registered exits, innermost (last registered) first: each exit receives the exception currently in flight; a
truthy result suppresses an exception in flight; an exception raised by an exit replaces the one in flight;
callbacks get their own arguments and their result is ignored.  Every exit is removed as it is run.
(Bounded cross-check against the real contextlib.AsyncExitStack: contracts/validate_refs.py.)"""


class ExitStackSpec:
    def __init__(self):
        self.exits = []

    def enter_context(self, cm):
        value = cm.__enter__()          # a manager whose enter fails is not registered
        self.exits.append(("cm", cm))
        return value

    def push(self, exit):
        if hasattr(exit, "__exit__"):
            self.exits.append(("cm", exit))
        else:
            self.exits.append(("exit", exit))
        return exit

    def callback(self, callback, *args, **kwargs):
        self.exits.append(("callback", (callback, args, kwargs)))
        return callback

    def pop_all(self):
        new = ExitStackSpec()
        new.exits = self.exits
        self.exits = []
        return new

    def aclose(self):
        self.__aexit__(None, None, None)

    def __aenter__(self):
        return self

    def __aexit__(self, typ, value, tb):
        received = typ is not None
        in_flight = value
        raised_by_exit = False
        suppressed = False
        while self.exits:
            kind, obj = self.exits.pop()
            exc_type = type(in_flight) if in_flight is not None else None
            exc_tb = tb if in_flight is not None else None
            try:
                if kind == "callback":
                    cb, args, kwargs = obj
                    cb(*args, **kwargs)
                    result = False
                elif kind == "cm":
                    result = obj.__exit__(exc_type, in_flight, exc_tb)
                else:
                    result = obj(exc_type, in_flight, exc_tb)
            except BaseException as new_exc:
                in_flight = new_exc
                tb = new_exc.__traceback__
                raised_by_exit = True
            else:
                if result:
                    suppressed = True
                    raised_by_exit = False
                    in_flight = None
        if raised_by_exit and in_flight is not None:
            raise in_flight
        return received and suppressed


def ExitStack():
    return ExitStackSpec()
