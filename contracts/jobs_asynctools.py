"""Jobs for asynctools adapters (C19) and borrow / scoped_iter (C07, C08)."""
from pyvc.driver import Job
from pyvc.values import *
from .jobs_basic import V, F, I
from .jobs_multi import C

P19 = ("C19", "C05", "C06")


def jobs():
    AT, RA = "asynctools", "ref_asynctools"
    J = []
    # any_iter: {plain, awaitable} x {sync iterable, async iterable} x {plain items, awaitable items}
    for arg_aw in (False, True):
        for src_kind in ("sync", "gen"):
            for items_aw in (False, True):
                def mk(ctx, env, arg_aw=arg_aw, src_kind=src_kind, items_aw=items_aw):
                    s = env.source("a", has_aclose=(src_kind != "sync"), kind=src_kind)
                    x = EnvAwaitable("arg", payload=s) if arg_aw else s
                    return dict(iargs=[x], rargs=[x, arg_aw, items_aw])
                J.append(Job(f"any_iter[arg_awaitable={int(arg_aw)},{src_kind},items_awaitable={int(items_aw)}]", (AT, "any_iter"), (RA, "any_iter"), mk,
                             props=P19, release=False, opts={"val_protocols": {"__await__": items_aw}}))
    def mk_each(ctx, env):
        s = env.source("a", has_aclose=False, kind="sync")
        return dict(iargs=[s], rargs=[s])
    J.append(Job("await_each", (AT, "await_each"), (RA, "await_each"), mk_each, props=P19, release=False, opts={"val_protocols": {"__await__": True}}))
    for npos, nkw in ((0, 0), (1, 0), (2, 0), (0, 1), (1, 1), (2, 2)):
        def mk_apply(ctx, env, npos=npos, nkw=nkw):
            f = env.fn("func")
            pos = [env.val(f"p{i}") for i in range(npos)]
            kw = {f"k{i}": env.val(f"kv{i}") for i in range(nkw)}
            return dict(iargs=[f] + pos, rargs=[f] + pos, ikw=dict(kw), rkw=dict(kw))
        J.append(Job(f"apply[{npos}+{nkw}]", (AT, "apply"), (RA, "apply"), mk_apply, kind="coro", props=P19, release=False,
                     opts={"direct_calls_ok": True}))
    # sync: coroutine functions come back unchanged; other callables are wrapped
    def mk_sync_coro(ctx, env):
        f = env.fn("function", flavour="corofn")
        return dict(iargs=[f], rargs=[f])
    J.append(Job("sync[coroutine function]", (AT, "sync"), (RA, "sync_identity"), mk_sync_coro, kind="coro", props=("C19",), release=False, faults=False))
    for ret_aw in (False, True):
        for flav in ("sync", "awaitable"):
            if (flav == "awaitable") != ret_aw:
                continue
            def mk_sync(ctx, env, flav=flav, ret_aw=ret_aw):
                f = env.fn("function", flavour=flav)
                a = env.val("x")
                return dict(iargs=[f, a], rargs=[f, ret_aw, a])
            J.append(Job(f"sync[{flav} callable]", ("canary_sync", "call_through_sync"), (RA, "sync_call"), mk_sync, kind="coro", props=("C19", "C06"), release=False,
                         opts={"direct_calls_ok": True, "val_protocols": {"__await__": ret_aw}, "impl_root": "contracts/adapters", "extra_modules": ("canary_sync",),
                               "under_contract": [("asynctools", "sync")]}))
    return J


def _pull(ip, it):
    return (yield from ip.pull(it))


def _aclose(ip, it):
    m = ip.getattr(it, "aclose" if ip.side == "impl" else "close")
    r = yield from ip.call(m, [], {})
    if ip.side == "impl":
        r = yield from ip.await_(r)
    return r


class BorrowProtocol:
    """C07: histories over {next(B), next(U) by the owner, close(B), close(iter(B)), tool(B), re-borrow}"""
    def available(self, H):
        ops = ["next(B)", "next(U)", "close(B)", "close(iter(B))", "tool(B)", "athrow(B)"]
        if "B2" not in H:
            ops.append("reborrow")
        else:
            ops += ["next(B2)", "close(B2)"]
        return ops

    def perform(self, ip, H, op):
        U = ip.env.sources["a"]
        B = H["self"]
        if op == "next(B)":
            return (yield from _pull(ip, B))
        if op == "next(B2)":
            return (yield from _pull(ip, H["B2"]))
        if op == "next(U)":
            return (yield from ip.pull(U, sync=(ip.side == "ref")))
        if op == "athrow(B)":
            env = ip.env
            if "thrown" not in env.block_exc:
                env.block_exc["thrown"] = ExcVal("UserError2", ident=("thrown",), origin="env")
            e = env.block_exc["thrown"]
            if ip.side == "impl":
                try:
                    m = ip.getattr(B, "athrow")
                except PyRaise:
                    raise PyRaise(e)        # a handle without athrow: the exception simply stays with the caller
                r = yield from ip.call(m, [e], {})
                return (yield from ip.await_(r))
            return (yield from ip.call(ip.getattr(B, "throw"), [e], {}))
        if op == "close(B)":
            yield from _aclose(ip, B)
            return None
        if op == "close(B2)":
            yield from _aclose(ip, H["B2"])
            return None
        if op == "close(iter(B))":
            if ip.side == "impl":
                it = yield from ip.call(ip.getattr(B, "__aiter__"), [], {})
            else:
                it = yield from ip.call(ip.getattr(B, "__iter__"), [], {})
            yield from _aclose(ip, it)
            return None
        if op == "reborrow":
            if ip.side == "impl":
                fn = ip.frames[0].fn.module.lookup("borrow") if ip.frames else None
            H["B2"] = yield from ip.call(H["mk"], [B], {})
            return None
        if op == "tool(B)":
            # a library tool that closes its inputs takes one item from the handle and is closed
            if ip.side == "impl":
                t = yield from ip.call(H["tool"], [B], {})
                try:
                    v = yield from ip.pull(t)
                finally:
                    yield from t.aclose()
                return v[1]
            try:
                v = yield from _pull(ip, B)
            finally:
                yield from _aclose(ip, B)
            return v
        raise KeyError(op)

    def expect(self, verifier, op):
        U = verifier.env.sources["a"]
        return [("underlying-not-closed", U.closes == 0, f"the underlying iterator was closed through the borrowed handle (after {op})")]


class ScopedProtocol:
    """C08: enter the scope, use the handle (also inside a nested scope and through a closing tool), leave"""
    def available(self, H):
        if "S" not in H:
            if "done" not in H:
                return ["enter"]
            # after the block: the handle is dead for every way of advancing it
            return (["next(S0)"] + (["asend(S0)", "athrow(S0)"] if "gen" in H else [])) if "S0" in H else []
        ops = ["next(S)", "close(S)", "tool(S)", "exit:none", "exit:raise"] + (["asend(S)"] if "gen" in H else [])
        if "inner" not in H and "nested" not in H:
            ops.append("enter-nested")
        if "inner" in H:
            ops = ["next(S2)", "close(S2)", "next(S)", "exit-nested"]
        elif "D" in H:
            # the handle of an ended nested scope, while the enclosing scope is still open: dead for every way of advancing it
            ops += ["next(D)"] + (["asend(D)", "athrow(D)"] if "gen" in H else [])
        return ops

    def perform(self, ip, H, op):
        impl = ip.side == "impl"

        def cm_call(cm, name, args):
            m = ip.getattr(cm, ("__a" if impl else "__") + name + "__")
            r = yield from ip.call(m, list(args), {})
            if impl:
                r = yield from ip.await_(r)
            return r
        if op == "enter":
            H["S"] = yield from cm_call(H["self"], "enter", [])
            if ip.env.sources["a"].kind == "gen":
                H["gen"] = "1"      # the underlying iterator has asend/athrow: the handle forwards them while it is open
            return None
        if op.startswith("asend(") or op.startswith("athrow("):
            h = H[op[op.index("(") + 1:-1]]
            env = ip.env
            if op.startswith("athrow("):
                if "thrown" not in env.block_exc:
                    env.block_exc["thrown"] = ExcVal("UserError2", ident=("thrown",), origin="env")
                arg = env.block_exc["thrown"]
            else:
                arg = env.val("sent")
            name = "asend" if op.startswith("asend(") else "athrow"
            if impl:
                r = yield from ip.call(ip.getattr(h, name), [arg], {})
                return (yield from ip.await_(r))
            return (yield from ip.call(ip.getattr(h, name[1:]), [arg], {}))
        if op in ("next(S)", "next(S2)", "next(S0)", "next(D)"):
            return (yield from _pull(ip, H[op[5:-1]]))
        if op in ("close(S)", "close(S2)"):
            yield from _aclose(ip, H[op[6:-1]])
            return None
        if op == "tool(S)":
            S = H["S"]
            if impl:
                t = yield from ip.call(H["tool"], [S], {})
                try:
                    v = yield from ip.pull(t)
                finally:
                    yield from t.aclose()
                return v[1]
            try:
                v = yield from _pull(ip, S)
            finally:
                yield from _aclose(ip, S)
            return v
        if op == "enter-nested":
            H["inner"] = yield from ip.call(H["mk"], [H["S"]], {})
            H["S2"] = yield from cm_call(H["inner"], "enter", [])
            H["nested"] = "1"
            return None
        if op == "exit-nested":
            yield from cm_call(H["inner"], "exit", [None, None, None])
            del H["inner"]
            H["D"] = H.pop("S2")
            return None
        if op.startswith("exit:"):
            if op.endswith("raise"):
                env = ip.env
                if "block" not in env.block_exc:
                    env.block_exc["block"] = ExcVal("Cancelled", ident=("block",), origin="env")
                e = env.block_exc["block"]
                args = [ExcClass(e.cls), e, Sentinel("traceback")]
            else:
                args = [None, None, None]
            # the block is left whether or not the exit itself fails (the underlying iterator's aclose may raise)
            H["S0"] = H.pop("S")
            H["done"] = "1"
            for k in ("inner", "S2", "D"):
                H.pop(k, None)
            r = yield from cm_call(H["self"], "exit", args)
            from pyvc.interp import to_bool, mk_bool
            b = to_bool(ip.ctx, r)
            return ("suppress", b if isinstance(b, bool) else mk_bool(b))
        raise KeyError(op)

    def expect(self, verifier, op):
        U = verifier.env.sources["a"]
        if not U.has_aclose:
            return []       # a plain iterable: the library closes only its own wrapper; items/ends are compared by the events
        if op.startswith("exit:"):
            return [("closed-exactly-once-at-exit", U.closes == 1, f"leaving the outermost scope closed the underlying iterator {U.closes} times")]
        if op.endswith("(S0)"):
            return [("closed-exactly-once-at-exit", U.closes == 1, "the underlying iterator was closed again after the scope")]
        return [("not-closed-inside-block", U.closes == 0, f"the underlying iterator was closed inside the block (after {op})")]


def _borrow_jobs():
    AT, RA = "asynctools", "ref_asynctools"
    out = []
    for kind in ("gen", "class", "sync", "throwonly"):
        def mk(ctx, env, kind=kind):
            s = env.source("a", has_aclose=(kind != "sync"), kind=kind)
            return dict(iargs=[s], rargs=[s])
        def pre(verifier, impl_i, ref_i):
            pass
        if kind != "sync":
          out.append(Job(f"borrow[{kind}]", (AT, "borrow"), (RA, "borrow"), mk, kind="protocol", props=("C07",), faults=False, closes=False, release=False,
                       opts={"protocol": BorrowProtocol(), "handles": {"mk": ((AT, "borrow"), (RA, "borrow")), "tool": (("builtins", "enumerate"), None)},
                             "under_contract": [(AT, "borrow"), (AT, "_BorrowedAsyncIterator")]}))
        if kind != "throwonly":
          out.append(Job(f"scoped_iter[{kind}]", (AT, "scoped_iter"), (RA, "scoped_iter"), mk, kind="protocol", props=("C08", "C18", "C07", "C03"), faults=False, closes=False, release=False,
                       overrides="none",
                       opts={"protocol": ScopedProtocol(), "aclose_faults": True, "handles": {"mk": ((AT, "scoped_iter"), (RA, "scoped_iter")), "tool": (("builtins", "enumerate"), None)},
                             "under_contract": [(AT, "scoped_iter"), (AT, "_ScopedAsyncIteratorContext"), (AT, "_ScopedAsyncIterator"), (AT, "_BorrowedAsyncIterator")]}))
    return out


_jobsA = jobs


def jobs():
    return _jobsA() + _borrow_jobs()
