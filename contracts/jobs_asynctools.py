"""Jobs for asynctools adapters (C19) and borrow / scoped_iter (C07, C08)."""
from pyvc.driver import Job
from pyvc.values import *
from .jobs_basic import V, F, I
from .jobs_multi import C

P19 = ("C19", "C05", "C06")


def jobs():
    AT, RA = "asynctools", "ref_asynctools"
    J = []
    # any_iter: {plain, awaitable} x {sync iterable, async iterable} x {plain items, awaitable items}
    for arg_aw in (False, True):
        for src_kind in ("sync", "gen"):
            for items_aw in (False, True):
                def mk(ctx, env, arg_aw=arg_aw, src_kind=src_kind, items_aw=items_aw):
                    s = env.source("a", has_aclose=(src_kind != "sync"), kind=src_kind)
                    x = EnvAwaitable("arg", payload=s) if arg_aw else s
                    return dict(iargs=[x], rargs=[x, arg_aw, items_aw])
                J.append(Job(f"any_iter[arg_awaitable={int(arg_aw)},{src_kind},items_awaitable={int(items_aw)}]", (AT, "any_iter"), (RA, "any_iter"), mk,
                             props=P19, release=False, opts={"val_protocols": {"__await__": items_aw}}))
    def mk_each(ctx, env):
        s = env.source("a", has_aclose=False, kind="sync")
        return dict(iargs=[s], rargs=[s])
    J.append(Job("await_each", (AT, "await_each"), (RA, "await_each"), mk_each, props=P19, release=False, opts={"val_protocols": {"__await__": True}}))
    for npos, nkw in ((0, 0), (1, 0), (2, 0), (0, 1), (1, 1), (2, 2)):
        def mk_apply(ctx, env, npos=npos, nkw=nkw):
            f = env.fn("func")
            pos = [env.val(f"p{i}") for i in range(npos)]
            kw = {f"k{i}": env.val(f"kv{i}") for i in range(nkw)}
            return dict(iargs=[f] + pos, rargs=[f] + pos, ikw=dict(kw), rkw=dict(kw))
        J.append(Job(f"apply[{npos}+{nkw}]", (AT, "apply"), (RA, "apply"), mk_apply, kind="coro", props=P19, release=False,
                     opts={"direct_calls_ok": True}))
    # sync: coroutine functions come back unchanged; other callables are wrapped
    def mk_sync_coro(ctx, env):
        f = env.fn("function", flavour="corofn")
        return dict(iargs=[f], rargs=[f])
    J.append(Job("sync[coroutine function]", (AT, "sync"), (RA, "sync_identity"), mk_sync_coro, kind="coro", props=("C19",), release=False, faults=False))
    for ret_aw in (False, True):
        for flav in ("sync", "awaitable"):
            if (flav == "awaitable") != ret_aw:
                continue
            def mk_sync(ctx, env, flav=flav, ret_aw=ret_aw):
                f = env.fn("function", flavour=flav)
                a = env.val("x")
                return dict(iargs=[f, a], rargs=[f, ret_aw, a])
            J.append(Job(f"sync[{flav} callable]", ("canary_sync", "call_through_sync"), (RA, "sync_call"), mk_sync, kind="coro", props=("C19", "C06"), release=False,
                         opts={"direct_calls_ok": True, "val_protocols": {"__await__": ret_aw}, "impl_root": "contracts/adapters", "extra_modules": ("canary_sync",),
                               "under_contract": [("asynctools", "sync")]}))
    return J
