"""Jobs (function x parameter shape) for the single-source tools and the aggregations."""
from pyvc.driver import Job
from pyvc.values import *

P_ITER = ("C01", "C05", "C06", "C04", "C18", "C20")
P_AGG = ("C02", "C06", "C04", "C18", "C20")


def src_pred(with_pred=True, argorder="fs", fname="function", has_aclose=True):
    def mk(ctx, env):
        s = env.source("a", has_aclose=has_aclose)
        f = env.fn(fname) if with_pred else None
        args = [f, s] if argorder == "fs" else [s, f]
        return dict(iargs=list(args), rargs=list(args))
    return mk


def one_src(extra=None, kw=None, has_aclose=True):
    def mk(ctx, env):
        s = env.source("a", has_aclose=has_aclose)
        ex = [e(ctx, env) for e in (extra or [])]
        k = {n: e(ctx, env) for n, e in (kw or {}).items()}
        return dict(iargs=[s] + ex, rargs=[s] + ex, ikw=dict(k), rkw=dict(k))
    return mk


def V(name):
    return lambda ctx, env: env.val(name)


def F(name):
    return lambda ctx, env: env.fn(name)


def I(name, lo=None, hi=None):
    return lambda ctx, env: env.int(name, lo, hi)


def jobs():
    B, IT, RB, RI, RF = "builtins", "itertools", "ref_builtins", "ref_itertools", "ref_functools"
    J = []
    def add(name, impl, ref, mk, kind="gen", props=P_ITER, **kw):
        J.append(Job(name, impl, ref, mk, kind=kind, props=props, **kw))
    add("filter[pred]", (B, "filter"), (RB, "filter"), src_pred())
    add("filter[None]", (B, "filter"), (RB, "filter"), src_pred(False))
    add("filter[pred,noaclose]", (B, "filter"), (RB, "filter"), src_pred(has_aclose=False))
    add("enumerate[start]", (B, "enumerate"), (RB, "enumerate"), one_src([I("start")]))
    add("enumerate[]", (B, "enumerate"), (RB, "enumerate"), one_src())
    add("takewhile", (IT, "takewhile"), (RI, "takewhile"), src_pred(fname="predicate"))
    add("dropwhile", (IT, "dropwhile"), (RI, "dropwhile"), src_pred(fname="predicate"))
    add("filterfalse[pred]", (IT, "filterfalse"), (RI, "filterfalse"), src_pred(fname="predicate"))
    add("filterfalse[None]", (IT, "filterfalse"), (RI, "filterfalse"), src_pred(False))
    add("pairwise", (IT, "pairwise"), (RI, "pairwise"), one_src())
    add("starmap", (IT, "starmap"), (RI, "starmap"), src_pred(fname="function"))
    add("accumulate[f]", (IT, "accumulate"), (RI, "accumulate"), one_src([F("function")]))
    add("accumulate[f,initial]", (IT, "accumulate"), (RI, "accumulate"), one_src([F("function")], {"initial": V("initial")}))
    add("accumulate[default add]", (IT, "accumulate"), (RI, "accumulate"), one_src())
    add("accumulate[default add,initial]", (IT, "accumulate"), (RI, "accumulate"), one_src(kw={"initial": V("initial")}))
    add("cycle", (IT, "cycle"), (RI, "cycle"), one_src(), opts={"accumulates": "documented: cycle stores all items"})
    # aggregations
    add("all", (B, "all"), (RB, "all"), one_src(), kind="coro", props=P_AGG + ("C05",))
    add("any", (B, "any"), (RB, "any"), one_src(), kind="coro", props=P_AGG + ("C05",))
    for fn in ("min", "max"):
        for k in (False, True):
            for d in (False, True):
                kw = {}
                if k:
                    kw["key"] = F("key")
                if d:
                    kw["default"] = V("default")
                add(f"{fn}[key={int(k)},default={int(d)}]", (B, fn), (RB, fn), one_src(kw=kw), kind="coro", props=P_AGG)
    add("sum[start]", (B, "sum"), (RB, "sum"), one_src([V("start")]), kind="coro", props=P_AGG, opts={"val_types": {"str": False, "bytes": False, "bytearray": False}})
    add("sum[]", (B, "sum"), (RB, "sum"), one_src(), kind="coro", props=P_AGG)
    add("reduce[]", ("functools", "reduce"), (RF, "reduce"), src_pred(fname="function"), kind="coro", props=P_AGG)
    def red_init(ctx, env):
        s = env.source("a"); f = env.fn("function"); i = env.val("initial")
        return dict(iargs=[f, s, i], rargs=[f, s, i])
    add("reduce[initial]", ("functools", "reduce"), (RF, "reduce"), red_init, kind="coro", props=P_AGG)
    return J
