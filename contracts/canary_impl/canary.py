"""Deliberately WRONG async implementations in the library's style (independent of /repo): each must be
refuted against the correct reference on every run (vacuity / soundness canaries, DESIGN 2.7)."""
from ._core import ScopedIter, awaitify as _awaitify, aiter
from .builtins import anext


async def filter_yield_before_test(function, iterable):
    # wrong: yields the item before the predicate is consulted
    async with ScopedIter(iterable) as item_iter:
        function = _awaitify(function)
        async for item in item_iter:
            yield item
            await function(item)


async def max_last_of_ties(iterable):
    # wrong: `not item < best` keeps the last of several equal maxima
    async with ScopedIter(iterable) as item_iter:
        best = await anext(item_iter)
        async for item in item_iter:
            if not (item < best):
                best = item
    return best


async def enumerate_leaky(iterable, start=0):
    # wrong: iterates without ScopedIter, the source is never closed
    count = start
    async for item in aiter(iterable):
        yield count, item
        count += 1
