"""Jobs for heapq: merge (C01/C05/C06/C04) against the installed CPython's pure-Python heapq.merge, interpreted
directly from Lib/heapq.py (module `stdlib:heapq`) - no transcribed reference."""
from pyvc.driver import Job
from pyvc.values import *
from .jobs_basic import P_ITER, F
from .jobs_multi import n_src, C

P = ("C01", "C05", "C06", "C04", "C18", "C20")


def jobs():
    J = []
    for n in (0, 1, 2):
        for keyed in (False, True):
            for reverse in (False, True):
                kw = {}
                if keyed:
                    kw["key"] = F("key")
                if reverse:
                    kw["reverse"] = C(True)
                J.append(Job(f"merge[{n},key={int(keyed)},reverse={int(reverse)}]", ("heapq", "merge"), ("stdlib:heapq", "merge"), n_src(n, kw=kw), props=P,
                             max_paths=20000, opts={"eq_is_incomparable": True, "fresh_ok": False}))
    return J
