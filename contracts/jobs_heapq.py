"""Jobs for heapq: merge (C01/C05/C06/C04) against the installed CPython's pure-Python heapq.merge, interpreted
directly from Lib/heapq.py (module `stdlib:heapq`) - no transcribed reference."""
from pyvc.driver import Job
from pyvc.values import *
from .jobs_basic import P_ITER, F
from .jobs_multi import n_src, C

P = ("C01", "C05", "C06", "C04", "C18", "C20")


def jobs():
    J = []
    for n in (0, 1, 2):
        for keyed in (False, True):
            for reverse in (False, True):
                kw = {}
                if keyed:
                    kw["key"] = F("key")
                if reverse:
                    kw["reverse"] = C(True)
                J.append(Job(f"merge[{n},key={int(keyed)},reverse={int(reverse)}]", ("heapq", "merge"), ("stdlib:heapq", "merge"), n_src(n, kw=kw), props=P,
                             max_paths=20000, opts={"eq_is_incomparable": True, "fresh_ok": False}))
    for fn in ("nlargest", "nsmallest"):
        for n in (0, 1, 2, 3):
            for keyed in (False, True):
                def mk(ctx, env, n=n, keyed=keyed):
                    src = env.source("a")
                    k = env.fn("key") if keyed else None
                    return dict(iargs=[src, n] + ([k] if keyed else []), rargs=[n, src] + ([k] if keyed else []))
                o = {"eq_is_incomparable": True}
                if n >= 2:
                    # a heap of n >= 2 entries: the unbounded product proof does not converge within the budget;
                    # bounded stand-in (streams of up to `unroll` pulls, all orderings/ties symbolic), labelled bounded
                    o.update({"mode": "bounded", "unroll": 4 if n == 2 else 3, "budget_s": 900})
                J.append(Job(f"{fn}[{'bounded ' if n >= 2 else ''}n={n},key={int(keyed)}]", ("heapq", fn), ("stdlib:heapq", fn), mk, kind="coro",
                             props=("C02", "C06", "C04", "C18"), max_paths=60000, thorough=(n == 3), faults=(n < 2), opts=o))
    return J
