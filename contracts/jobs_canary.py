"""must-fail canaries (DESIGN 2.7): deliberately wrong implementations (contracts/canary_impl, independent of
/repo) against the correct references.  A canary that verifies means the engine or the contract is vacuous."""
from pyvc.driver import Job
from .jobs_basic import src_pred, one_src, I

O = {"impl_root": "contracts/canary_impl", "extra_modules": ("canary",)}


def jobs():
    return [
        Job("canary:filter-yields-before-test", ("canary", "filter_yield_before_test"), ("ref_builtins", "filter"), src_pred(), props=("C01", "C05", "C06", "C03"), opts=O),
        Job("canary:max-last-of-ties", ("canary", "max_last_of_ties"), ("ref_builtins", "max"), one_src(), kind="coro", props=("C02",), opts=O),
        Job("canary:enumerate-leaks-source", ("canary", "enumerate_leaky"), ("ref_builtins", "enumerate"), one_src([I("start")]), props=("C01", "C04", "C18"), opts=O),
    ]
