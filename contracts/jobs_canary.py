"""must-fail canaries (DESIGN 2.7): the real function against a deliberately wrong reference"""
from pyvc.driver import Job
from .jobs_basic import src_pred, one_src, I


def jobs():
    return [
        Job("canary:filter-vs-yield-before-test", ("builtins", "filter"), ("ref_canary", "filter_yield_before_test"), src_pred(), props=("C01", "C05", "C06", "C03")),
        Job("canary:max-vs-last-of-ties", ("builtins", "max"), ("ref_canary", "max_last_of_ties"), one_src(), kind="coro", props=("C02",)),
        Job("canary:enumerate-vs-step2", ("builtins", "enumerate"), ("ref_canary", "enumerate_no_release"), one_src([I("start")]), props=("C01", "C04", "C18")),
    ]
