"""Jobs for lru_cache: C10 (sequential histories against the abstract LRU view)."""
import z3
from pyvc.driver import Job
from pyvc.values import *


class LRUProtocol:
    """any history of awaited calls over three symbolic call patterns, cache_info/parameters, clear, discard"""
    KEYS = ("a", "b", "c", "d")

    def available(self, H):
        if "cache" not in H:
            return ["decorate"]
        ops = [f"call({k})" for k in self.KEYS] + ["cache_info", "cache_parameters", "cache_clear"] + [f"cache_discard({k})" for k in self.KEYS[:1]]
        return ops

    def perform(self, ip, H, op):
        impl = ip.side == "impl"
        env = ip.env
        if op == "decorate":
            # the three call patterns are pairwise different (equal patterns are the same symbol)
            ip.ctx.assume(z3.Distinct(*[env.val(k).t for k in self.KEYS]))
            H["cache"] = yield from ip.call(H["self"], [env.fn("function", flavour="corofn")], {})
            return None
        cache = H["cache"]
        if op.startswith("call("):
            k = env.val(op[5:-1])
            if impl:
                r = yield from ip.call(ip.getattr(cache, "__call__"), [k], {})
                return (yield from ip.await_(r))
            return (yield from ip.call(ip.getattr(cache, "__call__"), [k], {}))
        if op.startswith("cache_discard("):
            k = env.val(op[14:-1])
            yield from ip.call(ip.getattr(cache, "cache_discard"), [k], {})
            return None
        r = yield from ip.call(ip.getattr(cache, op), [], {})
        return r


def key_contract(typed_ok=True):
    """contract standing in for CallKey.from_call while the cache logic is verified: a call with one positional
    user argument is keyed by that argument (equal patterns <=> equal keys); the partition lemma relating
    from_call to functools._make_key is checked separately (bounded, natively)"""
    return Builtin("contract.callkey")


def lru_view_invariant(key, paths):
    """declared refinement relation (must survive Houdini): the store of the real cache, read in order, IS the
    abstract view's `order`, and the counters agree"""
    import re
    out = {}
    impl_keys = {}
    for p in paths:
        m = re.search(r"^impl\..*__cache\.(key|val)(\d+)$", p)
        if m:
            impl_keys[(m.group(1), int(m.group(2)))] = p
    for (kind, i), ip in impl_keys.items():
        rp = f"ref.<consumer>.cache.order[{i}][{0 if kind == 'key' else 1}]"
        if rp in paths:
            out[f"store[{i}].{kind} == view.order[{i}].{kind}"] = (lambda t, e, ip=ip, rp=rp: t[ip] == t[rp])
        else:
            out[f"store[{i}].{kind} has a counterpart in the view"] = (lambda t, e: z3.BoolVal(False))
    for a, b in (("hits", "hits"), ("misses", "misses")):
        ips = [p for p in paths if p.startswith("impl.") and p.endswith("__" + a)]
        rp = f"ref.<consumer>.cache.{b}"
        if ips and rp in paths:
            out[f"{a} agree"] = (lambda t, e, ip=ips[0], rp=rp: t[ip] == t[rp])
    return out


def jobs():
    J = []
    for shape in ("None", "0", "neg", "n>=1"):
        def mk(ctx, env, shape=shape):
            if shape == "None":
                m = None
            elif shape == "0":
                m = 0
            elif shape == "neg":
                m = env.int("maxsize", None, -1)
            else:
                m = env.int("maxsize", 1, None)
            return dict(iargs=[m], rargs=[m])
        J.append(Job(f"lru_cache[maxsize={shape}]", ("_lrucache", "lru_cache"), ("ref_lru", "lru_cache"), mk, kind="protocol", props=("C10", "C06"),
                     closes=False, release=False, faults=True, max_paths=20000, invariants=lru_view_invariant,
                     opts={"protocol": LRUProtocol(), "direct_calls_ok": True, "ret_kinds": {"function": "awaitable"},
                           "callkey_contract": True, "fault_kinds": ("raise",), "snapshot": True,
                           "under_contract": [("_lrucache", "lru_cache"), ("_lrucache", "UncachedLRUAsyncCallable"), ("_lrucache", "MemoizedLRUAsyncCallable"), ("_lrucache", "CachedLRUAsyncCallable")]}))
    return J
