"""Jobs for lru_cache: C10 (sequential histories against the abstract LRU view)."""
import z3
from pyvc.driver import Job
from pyvc.values import *


class LRUProtocol:
    """any history of awaited calls over three symbolic call patterns, cache_info/parameters, clear, discard"""
    KEYS = ("a", "b", "c", "d")

    def available(self, H):
        if "cache" not in H:
            return ["decorate"]
        ops = [f"call({k})" for k in self.KEYS] + ["cache_info", "cache_parameters", "cache_clear"] + [f"cache_discard({k})" for k in self.KEYS[:1]]
        return ops

    def perform(self, ip, H, op):
        impl = ip.side == "impl"
        env = ip.env
        if op == "decorate":
            # the three call patterns are pairwise different (equal patterns are the same symbol)
            ip.ctx.assume(z3.Distinct(*[env.val(k).t for k in self.KEYS]))
            H["cache"] = yield from ip.call(H["self"], [env.fn("function", flavour="corofn")], {})
            return None
        cache = H["cache"]
        if op.startswith("call("):
            k = env.val(op[5:-1])
            if impl:
                r = yield from ip.call(ip.getattr(cache, "__call__"), [k], {})
                return (yield from ip.await_(r))
            return (yield from ip.call(ip.getattr(cache, "__call__"), [k], {}))
        if op.startswith("cache_discard("):
            k = env.val(op[14:-1])
            yield from ip.call(ip.getattr(cache, "cache_discard"), [k], {})
            return None
        r = yield from ip.call(ip.getattr(cache, op), [], {})
        return r


def key_contract(typed_ok=True):
    """contract standing in for CallKey.from_call while the cache logic is verified: a call with one positional
    user argument is keyed by that argument (equal patterns <=> equal keys); the partition lemma relating
    from_call to functools._make_key is checked separately (bounded, natively)"""
    return Builtin("contract.callkey")


def lru_view_invariant(key, paths):
    """declared refinement relation (must survive Houdini): the store of the real cache, read in order, IS the
    abstract view's `order`, and the counters agree"""
    import re
    out = {}
    impl_keys = {}
    for p in paths:
        m = re.search(r"^impl\..*__cache\.(key|val)(\d+)$", p)
        if m:
            impl_keys[(m.group(1), int(m.group(2)))] = p
    for (kind, i), ip in impl_keys.items():
        rp = f"ref.<consumer>.cache.order[{i}][{0 if kind == 'key' else 1}]"
        if rp in paths:
            out[f"store[{i}].{kind} == view.order[{i}].{kind}"] = (lambda t, e, ip=ip, rp=rp: t[ip] == t[rp])
        else:
            out[f"store[{i}].{kind} has a counterpart in the view"] = (lambda t, e: z3.BoolVal(False))
    for a, b in (("hits", "hits"), ("misses", "misses")):
        ips = [p for p in paths if p.startswith("impl.") and p.endswith("__" + a)]
        rp = f"ref.<consumer>.cache.{b}"
        if ips and rp in paths:
            out[f"{a} agree"] = (lambda t, e, ip=ips[0], rp=rp: t[ip] == t[rp])
    return out


def jobs():
    J = []
    for shape in ("None", "0", "neg", "n>=1"):
        def mk(ctx, env, shape=shape):
            if shape == "None":
                m = None
            elif shape == "0":
                m = 0
            elif shape == "neg":
                m = env.int("maxsize", None, -1)
            else:
                m = env.int("maxsize", 1, None)
            return dict(iargs=[m], rargs=[m])
        J.append(Job(f"lru_cache[maxsize={shape}]", ("_lrucache", "lru_cache"), ("ref_lru", "lru_cache"), mk, kind="protocol", props=("C10", "C06"),
                     closes=False, release=False, faults=True, max_paths=20000, invariants=lru_view_invariant,
                     opts={"protocol": LRUProtocol(), "direct_calls_ok": True, "ret_kinds": {"function": "awaitable"},
                           "callkey_contract": True, "fault_kinds": ("raise",), "snapshot": True,
                           "under_contract": [("_lrucache", "lru_cache"), ("_lrucache", "UncachedLRUAsyncCallable"), ("_lrucache", "MemoizedLRUAsyncCallable"), ("_lrucache", "CachedLRUAsyncCallable")]}))
    return J


# =====================================================================================================
# C11: overlapping calls and cancellation - Owicki-Gries / rely-guarantee at the suspension point
# =====================================================================================================
produced = z3.Function("produced", Val, Val, z3.BoolSort())      # ghost: the wrapped function returned v for pattern k


def _field(obj, suffix):
    for k in obj.f:
        if k.endswith(suffix):
            return k
    return None


def _as_int(v):
    from pyvc.interp import as_int
    return as_int(v)


def lru_invariant(cache, ghost):
    """the shared invariant I over the real cache object and the ghost counters: list of (name, z3 formula)"""
    out = []
    hits = cache.f[_field(cache, "__hits")] if _field(cache, "__hits") else 0
    misses = cache.f[_field(cache, "__misses")]
    out.append(("hits+misses == calls started", _as_int(hits) + _as_int(misses) == _as_int(ghost["calls"])))
    out.append(("misses == invocations of the wrapped function", _as_int(misses) == _as_int(ghost["invocations"])))
    ck = _field(cache, "__cache")
    if ck is not None:
        store = cache.f[ck]
        mk = _field(cache, "__maxsize")
        if mk is not None:
            out.append(("stored entries <= maxsize", z3.IntVal(len(store)) <= _as_int(cache.f[mk])))
        keys = list(store.keys())
        for i, k in enumerate(keys):
            v = dict.__getitem__(store, k)
            out.append((f"stored value {i} was produced for its pattern", produced(k.t, v.t)))
        if len(keys) > 1:
            out.append(("stored patterns are pairwise different", z3.Distinct(*[k.t for k in keys])))
    return out


def interfere(verifier, ctx, ev):
    """at the suspension inside __call__: (1) the invariant must hold here (end of segment S1); (2) other tasks run
    arbitrary segments - the shared state becomes ANY state satisfying the invariant (rely = guarantee = I)"""
    H = verifier.impl_i.roots
    cache = H.get("cache")
    env = verifier.env
    if cache is None:
        return
    ghost = H["ghost"]
    job = verifier.job
    # bookkeeping of this invocation (ghost): the await belongs to the preceding Call of the wrapped function
    ok = True
    for name, f in lru_invariant(cache, ghost):
        ok &= bool(verifier.prove(ctx, f"{job.name}/og-inv/at-suspension/{name}", "og-inv", f,
                                  detail=f"invariant `{name}` does not hold when __call__ suspends in the wrapped function"))
    if not ok:
        from pyvc.values import PathEnd
        raise PathEnd()
    # havoc the shared state
    ck = _field(cache, "__cache")
    if ck is not None:
        store = cache.f[ck]
        n = ctx.choose(3, "interference: number of stored entries")
        dict.clear(store)
        for i in range(n):
            k = Opaque(ctx.fresh(Val, "other_key"))
            v = Opaque(ctx.fresh(Val, "other_val"))
            dict.__setitem__(store, k, v)
    for suffix in ("__hits", "__misses"):
        fk = _field(cache, suffix)
        if fk is not None:
            cache.f[fk] = SInt(ctx.fresh(z3.IntSort(), suffix.strip("_")))
    ghost["calls"] = SInt(ctx.fresh(z3.IntSort(), "calls"))
    ghost["invocations"] = SInt(ctx.fresh(z3.IntSort(), "invocations"))
    for name, f in lru_invariant(cache, ghost):
        ctx.assume(f)
    if ctx.check() != z3.sat:
        from pyvc.values import Infeasible
        raise Infeasible()
    verifier.trace.append(("interference by other tasks", f"{n if ck is not None else '-'} entries stored"))


def lru_og_declared(key, paths):
    """the shared invariant I as a declared invariant of the consumer-loop cut (checked on arrival, assumed after havoc)"""
    import re
    out = {}
    ks = sorted(p for p in paths if re.search(r"__cache\.key\d+$", p))
    vs = sorted(p for p in paths if re.search(r"__cache\.val\d+$", p))
    for kp, vp in zip(ks, vs):
        out[f"{kp.split('.')[-1]} produced"] = (lambda t, e, kp=kp, vp=vp: produced(t[kp], t[vp]))
    if len(ks) > 1:
        out["stored patterns distinct"] = (lambda t, e, ks=ks: z3.Distinct(*[t[k] for k in ks]))
    hits = [p for p in paths if p.endswith("__hits")]
    misses = [p for p in paths if p.endswith("__misses")]
    calls = [p for p in paths if p.endswith("ghost[calls]")]
    inv = [p for p in paths if p.endswith("ghost[invocations]")]
    if misses and calls:
        if hits:
            out["hits+misses == calls"] = (lambda t, e: t[hits[0]] + t[misses[0]] == t[calls[0]])
        if inv:
            out["misses == invocations"] = (lambda t, e: t[misses[0]] == t[inv[0]])
    mx = [p for p in paths if p.endswith("__maxsize")]
    if mx:
        out["len <= maxsize"] = (lambda t, e, n=len(ks): z3.IntVal(n) <= t[mx[0]])
    return out


class LRUOverlapProtocol:
    KEYS = ("a", "b")

    def available(self, H):
        if "cache" not in H:
            return ["decorate"]
        return [f"call({k})" for k in self.KEYS] + ["cache_clear", "cache_discard(a)", "cache_info"]

    def perform(self, ip, H, op):
        env = ip.env
        if op == "decorate":
            ip.ctx.assume(z3.Distinct(*[env.val(k).t for k in self.KEYS]))
            H["ghost"] = {"calls": 0, "invocations": 0}
            H["cache"] = yield from ip.call(H["self"], [env.fn("function", flavour="corofn")], {})
            return None
        cache = H["cache"]
        if op.startswith("call("):
            k = env.val(op[5:-1])
            from pyvc.interp import mk_int, as_int
            H["ghost"]["calls"] = mk_int(as_int(H["ghost"]["calls"]) + 1)
            env.last_key = k
            r = yield from ip.call(ip.getattr(cache, "__call__"), [k], {})
            return (yield from ip.await_(r))
        if op.startswith("cache_discard("):
            yield from ip.call(ip.getattr(cache, "cache_discard"), [env.val(op[14:-1])], {})
            return None
        if op == "cache_clear":
            yield from ip.call(ip.getattr(cache, "cache_clear"), [], {})
            H["ghost"]["calls"] = 0
            H["ghost"]["invocations"] = 0
            return None
        return (yield from ip.call(ip.getattr(cache, op), [], {}))

    def expect(self, verifier, op, outcome):
        H = verifier.impl_i.roots
        cache = H.get("cache")
        if cache is None:
            return []
        env = verifier.env
        out = [(f"og-inv/after-{op.split('(')[0]}/{name}", f, f"invariant `{name}` does not hold after {op} ({outcome[0]})")
               for name, f in lru_invariant(cache, H["ghost"])]
        if op.startswith("call(") and outcome[0] == "ok":
            k = env.val(op[5:-1])
            r = outcome[1]
            if isinstance(r, Opaque):
                out.append(("result-was-produced-for-an-equal-pattern", produced(k.t, r.t),
                            "the caller received a value the wrapped function never produced for this argument pattern"))
        return out


def on_call_respond(verifier, ctx, ev, env):
    return None


def _overlap_jobs():
    out = []
    for shape in ("None", "n>=1"):
        def mk(ctx, env, shape=shape):
            m = None if shape == "None" else env.int("maxsize", 1, None)
            return dict(iargs=[m], rargs=[m])
        out.append(Job(f"lru_cache-overlap[maxsize={shape}]", ("_lrucache", "lru_cache"), None, mk, kind="protocol", props=("C11", "C18"),
                       closes=False, release=False, faults=True, max_paths=20000, invariants=lru_og_declared,
                       opts={"protocol": LRUOverlapProtocol(), "direct_calls_ok": True, "ret_kinds": {"function": "awaitable"},
                             "callkey_contract": True, "snapshot": True, "at_suspension": interfere, "ghost_lru": True,
                             "under_contract": [("_lrucache", "MemoizedLRUAsyncCallable"), ("_lrucache", "CachedLRUAsyncCallable")]}))
    return out


_jobs_seq = jobs


def jobs():
    return _jobs_seq() + _overlap_jobs()
