"""islice with start+stop and/or step: the declared modular invariant of DESIGN A.1 (replaces the bounded stand-in)."""
import z3
from pyvc.driver import Job
from pyvc.values import *
from pyvc.interp import as_int, GenObj
from .jobs_basic import P_ITER


def islice_invariant(verifier):
    """relation between the implementation (enumerate's counter inside islice, the decremented `stop`) and CPython's
    islice_next state (cnt, nxt): with k = number of items consumed in the main phase,
        cnt = start + k,   nxt = min(stop, start + ceil(k/step)*step)   (no min when stop is None)"""
    fi = [f for f in verifier.impl_i.frames if f.name == "islice"]
    fr = [f for f in verifier.ref_i.frames if f.name == "islice"]
    if not fi or not fr:
        return []
    fi, fr = fi[-1], fr[-1]
    gens = [v for k, v in fi.hidden.items() if k[0] == "iter" and isinstance(v, GenObj) and v.fn.name == "enumerate"
            and v.kwargs.get("start") == 0]
    if not gens or not all(n in fr.env for n in ("cnt", "nxt", "step", "start")):
        return []
    g = gens[-1]
    if g.state == "fresh":
        k = z3.IntVal(0)
    elif g.state == "done" or g.frame is None or "count" not in g.frame.env:
        return []
    else:
        k = as_int(g.frame.env["count"]) + (1 if g.state == "suspended" else 0)
    start_i, step_i = as_int(fi.env["start"]), as_int(fi.env["step"])
    cnt, nxt = as_int(fr.env["cnt"]), as_int(fr.env["nxt"])
    start_r, step_r = as_int(fr.env["start"]), as_int(fr.env["step"])
    out = [("same start", start_i == start_r), ("same step, step >= 1", z3.And(step_i == step_r, step_r >= 1)),
           ("start >= 0", start_r >= 0), ("consumed >= 0", k >= 0),
           ("cnt == start + consumed", cnt == start_r + k)]
    T = cnt + ((step_r - k % step_r) % step_r)
    stop_r = fr.env.get("stop")
    if stop_r is None:
        out.append(("nxt == next index on the step grid", nxt == T))
    else:
        sr = as_int(stop_r)
        out.append(("decremented stop", as_int(fi.env["stop"]) == sr - start_r - 1))
        out.append(("consumed <= stop - start", k <= sr - start_r))
        out.append(("nxt == min(stop, next index on the step grid)", nxt == z3.If(T < sr, T, sr)))
    # theorem of integer arithmetic (proved once per run as its own obligation, see contracts/extras.modulus_lemma)
    out.append(("lemma: (k+1) mod s", z3.And((k + 1) % step_r == z3.If(k % step_r + 1 == step_r, 0, k % step_r + 1),
                                             k % step_r >= 0, k % step_r < step_r), "lemma"))
    return out


def jobs():
    IT, RI = "itertools", "ref_itertools"
    J = []
    def isl(*spec):
        def mk(ctx, env):
            s = env.source("a")
            args = []
            for i, sp in enumerate(spec):
                nm = ["p0", "p1", "p2"][i]
                if sp is None:
                    args.append(None)
                elif sp == "step":
                    args.append(env.int(nm, 1))
                else:
                    args.append(env.int(nm, 0))
            return dict(iargs=[s] + args, rargs=[s] + list(args))
        return mk
    for name, spec in (("start,stop", ("n", "n")), ("start,stop,step", ("n", "n", "step")), ("start,None,step", ("n", None, "step")),
                       ("None,stop,step", (None, "n", "step")), ("None,None,step", (None, None, "step"))):
        J.append(Job(f"islice[{name}]", (IT, "islice"), (RI, "islice"), isl(*spec), props=P_ITER, max_paths=20000,
                     opts={"state_invariant": islice_invariant}))
    return J
