"""Which jobs and extra checks decide which property (the sidecar's table of contents)."""
import importlib

JOB_MODULES = ["contracts.jobs_basic", "contracts.jobs_multi", "contracts.jobs_classes", "contracts.jobs_context", "contracts.jobs_asynctools", "contracts.jobs_core", "contracts.jobs_lru", "contracts.jobs_cached_property", "contracts.jobs_tee", "contracts.jobs_heapq", "contracts.jobs_islice"]
CANARY = "contracts.jobs_canary"

_cache = {}


def _jobs(modname):
    if modname not in _cache:
        _cache[modname] = importlib.import_module(modname).jobs()
    return _cache[modname]


def jobs_for(prop, tier):
    out = []
    for m in JOB_MODULES:
        for j in _jobs(m):
            if tier != "thorough" and j.opts.get("thorough_only"):
                continue
            if prop in j.props:
                out.append((m, j.name))
            elif prop == "C17" and j.kind != "static":
                out.append((m, j.name))       # every job contributes its await-operand classification
            elif prop == "C03" and m in ("contracts.jobs_basic", "contracts.jobs_multi", "contracts.jobs_classes"):
                out.append((m, j.name))       # tools call user callables only through the awaitify contract
    return out


def find_job(name):
    for m in JOB_MODULES + [CANARY]:
        for j in _jobs(m):
            if j.name == name:
                return (m, j.name)
    raise KeyError(name)


from pyvc import typing_pass
from contracts import extras

TB_COMMON = [
    "pyvc itself (AST interpreter, lock-step driver, cut-point/Houdini logic): ~3k lines of unverified Python",
    "reference functions in contracts/refs = CPython semantics (transcribed; validated differentially by contracts/validate_refs.py up to its bound)",
    "environment model: sources/callables answer with fresh symbols (A5, A6)",
    "contract of _core.aiter/_core.awaitify assumed while verifying tools (proved separately under C03)",
]

PROPS = {
    "C01": dict(level="proof", extra=[extras.refs_validation, extras.modulus_lemma], canaries=[(CANARY, "canary:filter-yields-before-test")], trusted_base=TB_COMMON,
                explanation="relational proof: every yielded item (object identity) and the final outcome of each tool equal those of the reference generator, for all items/lengths (loop cut + inductive coupling invariant)"),
    "C02": dict(level="proof", extra=[extras.refs_validation], canaries=[(CANARY, "canary:max-last-of-ties")], trusted_base=TB_COMMON + ["list.sort = stable sort (uninterpreted sort_by)"],
                explanation="relational proof of return value / exception class against the reference aggregation; mutation of arguments shows as an in-place Op event the reference never performs"),
    "C03": dict(level="proof", canaries=[(CANARY, "canary:filter-yields-before-test")], extra=[typing_pass.kind_pass, extras.lru_methods_c03],
                trusted_base=TB_COMMON + ["isinstance(x, Awaitable/AsyncIterable) and iscoroutinefunction as A9 says", "a callable keeps its flavour between calls (A6)"],
                explanation="(a) contracts of _core.aiter/_aiter_sync/ScopedIter/borrow/awaitify/Awaitify proved on the real code for every iterable flavour (async generator, class-based with/without aclose, sync iterable, sequence) and callable flavour (def, async def/partial of one, callable returning an awaitable), incl. the cached state of Awaitify; (b) every tool is verified against those contracts only and every user callable is invoked through awaitify and awaited at once (neutral-call / await-adjacent obligations), so tool proofs never depend on the flavour; (c) result-kind judgement for every public name"),
    "C04": dict(level="proof", canaries=[(CANARY, "canary:enumerate-leaks-source")], trusted_base=TB_COMMON,
                explanation="release postcondition at every exit path (exhaustion, consumer close at every yield, raise/cancel at every pull/call)"),
    "C05": dict(level="proof", extra=[extras.refs_validation, extras.modulus_lemma], canaries=[(CANARY, "canary:filter-yields-before-test")], trusted_base=TB_COMMON,
                explanation="event-match on requests: pulls, end detections and callable invocations occur in the reference's order between any two yields"),
    "C06": dict(level="proof", extra=[extras.refs_validation], canaries=[(CANARY, "canary:filter-yields-before-test")], trusted_base=TB_COMMON,
                explanation="a fault answered at every pull/call/op: same events up to the fault, the very same exception object propagates"),
    "C07": dict(level="proof", canaries=[(CANARY, "canary:filter-yields-before-test")],
                trusted_base=TB_COMMON + ["specification BorrowSpec (contracts/refs/ref_asynctools.py) written from the property", "athrow through an open handle is forwarded by design (covered: athrow(B)); asend through an open borrowed handle is not exercised",
                                          "composition with tools: every tool only pulls from and finally closes its inputs (their C04/C01 contracts); one closing tool (enumerate) is interpreted for real"],
                explanation="class invariant + frame condition of _BorrowedAsyncIterator under arbitrary histories of {next(B), next(U), close(B), close(iter(B)), tool(B), athrow(B), re-borrow, next/close(B2)}: same items as the specification, the underlying iterator is never closed (close counter stays 0 after every operation), a closed handle pulls nothing; the scoped_iter jobs (handles ended through _aclose_wrapper, dead handles advanced by next/asend/athrow) count for C07 as well"),
    "C08": dict(level="proof", canaries=[(CANARY, "canary:filter-yields-before-test")],
                trusted_base=TB_COMMON + ["specification ScopeSpec/ScopedSpec (contracts/refs/ref_asynctools.py) written from the property", "nesting explored to depth 2 (an inner scope's iterator is the outer handle, whose aclose is a no-op: deeper nesting repeats the same step)"],
                explanation="histories inside the block (next, asend, close, closing tool, nested scope enter/exit, the dead handle of an ended nested scope advanced by next/asend/athrow) and both exit kinds (normal / BaseException as for cancellation), the underlying iterator's own aclose possibly failing or being cancelled: the underlying iterator's close counter is 0 after every operation inside the block, exactly 1 after leaving the outermost scope, and the handle yields nothing afterwards by next/asend/athrow"),
    "C09": dict(level="proof", canaries=[(CANARY, "canary:filter-yields-before-test")], extra=[extras.seq_suffix_lemma, extras.tee_schedules],
                trusted_base=TB_COMMON + ["ghost state: hist = sequence of items the source answered, y_p = number of items child p yielded",
                                          "deque/list contract (append, popleft, pop(idx), identity search) of the interpreter; z3 sequence theory with cvc5 --strings-exp as second back end for queries z3 leaves unknown",
                                          "cooperative scheduling: children interleave at yields (consumer loop) and, with a lock, at the lock (enter and release) and inside the source",
                                          "sequence lemmas h[y:]++e = (h++e)[y:], (h[y:])[1:] = h[y+1:], (h[y:])[0] = h[y]: proved once per run by z3 and cvc5 (lemma/seq-suffix-*), assumed as ground instances",
                                          "user lock contract: __aenter__ returns holding the lock or is cancelled, __aexit__ releases and may suspend after releasing; siblings fetch only while the lock is free and the source has not ended",
                                          "interference by the siblings at a suspension point = one sibling doing an arbitrary amount of yielding/fetching (n=2); siblings being closed meanwhile and cancellation combined with interference only in the thorough-only combined job (undecided within its budget: bounded native schedule exploration stands in)"],
                bounded_note=[{"what": "schedules of the real tee (replay/schedules.py tee)", "bound": "2 children (thorough: 2..3), source lengths 0..2 (0..3), suspending source, with/without lock, children closing after j items, one cancellation: all schedules depth first up to a per-scenario cap; label bounded"}],
                explanation="Owicki-Gries invariant over the real tee_peer/_TeePeer/Tee code: for every registered child buffer_p = hist[y_p:]; each advance yields hist[y_p]; a child ends only after the full sequence; finished/closed children are unregistered (stop buffering) and the source is closed exactly when no child is left; any interleaving of next/close operations of the children (consumer loop = cut point) and any stream length; with a user lock: the invariant proved at every suspension point inside an advance (waiting for the lock, releasing it, inside the source) before the siblings act on the shared state, the lock free whenever every child is suspended at its yield, the source advanced only under the lock"),
    "C10": dict(level="proof", canaries=[(CANARY, "canary:max-last-of-ties")], extra=[extras.callkey_partition, extras.refs_validation, extras.lru_methods],
                trusted_base=TB_COMMON + ["abstract LRU view contracts/refs/ref_lru.py = functools.lru_cache (written from Lib/functools.py, validated differentially)",
                                          "dict / OrderedDict contract of pyvc/odmodel.py (insertion order, move_to_end, popitem(last=False), lookup by key equality)",
                                          "while the cache logic is verified, CallKey.from_call is replaced by its contract `equal call patterns <=> equal keys`; that contract is checked against functools._make_key by bounded native enumeration only (labelled bounded)"],
                bounded_note=[{"what": "CallKey.from_call vs functools._make_key induce the same partition of call patterns", "bound": "values {1, 1.0, True, '1', (1, 2), None, 2, 'a'} in up to 2 positional and 2 keyword arguments, both keyword orders, typed in {False, True}: native enumeration (bounded stand-in, not counted as discharged)"},
                              {"what": "bound methods / classmethods / staticmethods", "bound": "LRUAsyncBoundCallable only prepends __self__; random native histories against functools.lru_cache used the same way (replay/bounded.py, labelled bounded), not by obligations"}],
                explanation="data structure against abstract view: every operation (awaited call incl. failing calls, cache_info, cache_parameters, cache_clear, cache_discard) of Uncached/Memoized/CachedLRUAsyncCallable and of the lru_cache front end refines the abstract LRU view from an arbitrary state of each shape (consumer loop = cut point, so histories are unbounded; maxsize symbolic; three symbolic call patterns)"),
    "C11": dict(level="proof", canaries=[(CANARY, "canary:max-last-of-ties")], extra=[extras.lru_schedules],
                trusted_base=TB_COMMON + ["cooperative scheduling: tasks interleave only at the await of the wrapped function (the only suspension point in __call__; C17 effect typing)",
                                          "rely = guarantee = the shared invariant I: at the suspension point the shared state (store, hits, misses, ghost counters) is replaced by ANY state satisfying I; the store is havocked to 0..2 entries of fresh patterns (the code after the await only distinguishes `key in cache` and `len >= maxsize`)",
                                          "dict / OrderedDict contract of pyvc/odmodel.py; CallKey.from_call replaced by its contract as in C10"],
                bounded_note=[{"what": "store size visible to the resumed segment", "bound": "interference leaves 0, 1 or 2 entries (symbolic patterns, symbolic maxsize >= 1 or None)"},
                              {"what": "schedules of the real lru_cache (replay/schedules.py lru)", "bound": "2 (thorough: 2..3) calling tasks with 1..2 (1..3) calls over up to 3 keys, maxsize None/1/2, one failing invocation, one interleaved cache_clear/cache_discard, one cancellation; label bounded"}],
                explanation="Owicki-Gries / rely-guarantee at the suspension point of __call__: the invariant I = {hits+misses = calls started, misses = invocations of the wrapped function, entries <= maxsize, every stored value was produced for its pattern, patterns distinct} is proved at the suspension (end of segment S1), after the resumed segment for every outcome (value, exception, cancellation) from an arbitrary I-state, and after cache_clear/cache_discard/cache_info; every returned value was produced for an equal pattern. No schedule is enumerated: any interleaving is a sequence of such segments"),
    "C12": dict(level="proof", canaries=[(CANARY, "canary:max-last-of-ties")], extra=[extras.cached_property_schedules],
                trusted_base=TB_COMMON + ["specification contracts/refs/ref_cached_property.py written from the property (slot = absent / placeholder / value)",
                                          "Python's attribute lookup: an instance-dict entry shadows the non-data descriptor; `del instance.attr` removes the entry",
                                          "user lock contract: __aenter__ returns only when unheld and then holds, __aexit__ releases; both may suspend",
                                          "cooperative scheduling: tasks interleave only at the lock's enter/exit and inside the getter (C17 effect typing)"],
                bounded_note=[{"what": "interference per awaiter", "bound": "at most two interfering changes of the slot (each an arbitrary allowed state: deleted / new placeholder / value returned by another run) during one await; more changes repeat the same restart step"},
                              {"what": "schedules of the real cached_property (replay/schedules.py cached_property)", "bound": "2..3 (thorough: 2..4) awaiting tasks, getter suspending 1..2 times, with/without lock, failing first run, deleting task, one cancellation, awaitable getter results, a placeholder reused after del; label bounded"}],
                explanation="(a) sequential: every history over {access, await the placeholder later, access+await, del, failing getter, second instance} against the slot specification (consumer loop = cut point: unbounded histories); (b) concurrent, with and without lock: rely-guarantee at every suspension point of _await_impl - the slot becomes any state the invariant allows; obligations: every awaiter receives a value some getter run returned, the lock is released on every exit (value, exception, cancellation), with a lock the getter starts only under the lock and never after a run for the same placeholder completed"),
    "C13": dict(level="proof", canaries=[(CANARY, "canary:filter-yields-before-test")],
                trusted_base=TB_COMMON + ["reference = contextlib._AsyncGeneratorContextManager of the installed CPython, extracted mechanically on demand (tools/extract_refs.py, drift-checked on every run) and rendered synchronous by fixed textual rules",
                                          "async-generator protocol A3: the generator's answers to anext/athrow/aclose range over {yield, stop, raise the same object, raise a new exception (same or other class), RuntimeError caused by the thrown exception}; a Stop(Async)Iteration never leaves a generator as such (PEP 479/525)"],
                extra=[extras.refs_drift, extras.contextmanager_native],
                explanation="loop-free, hence complete case analysis: __aenter__/__aexit__ of the real class against the extracted CPython methods over every abstract generator answer, for the 8 block outcomes; GeneratorExit rows specified from the property (closed, same object propagates)"),
    "C14": dict(level="proof", canaries=[(CANARY, "canary:filter-yields-before-test")],
                trusted_base=TB_COMMON + ["specification contracts/refs/ref_exitstack.py = fold of the with-statement semantics (language reference 8.5) over the registered exits; cross-checked natively against contextlib.AsyncExitStack up to a bound",
                                          "deque/reversed/partial contracts of the interpreter"],
                bounded_note=[{"what": "stack size", "bound": "registrations enumerated up to 2 (quick) / 3 (thorough) entries of every kind; the unwinding loop is unrolled for these sizes (no loop invariant in the stack size); exit behaviours, block outcome and the history {unwind, aclose, pop_all, unwind again} are explored exhaustively and symbolically"}],
                explanation="every history register* ; (leave|aclose|pop_all)* of the real ExitStack against the nested-with specification: same exits called with the same in-flight exception in the same order, same overall outcome, each exit exactly once"),
    "C15": dict(level="proof", canaries=[(CANARY, "canary:filter-yields-before-test")], extra=[extras.decorator_schedules],
                trusted_base=TB_COMMON + ["specification contracts/refs/ref_contextlib_spec.py written from the property; async-with semantics A2",
                                          "non-interference of concurrent calls follows from the per-call events: each call of a generator-based manager performs its own Call(genfunc) and drives only that generator object (event-match on object identity), and the decorator object is not written (only objects allocated by the call are)"],
                bounded_note=[{"what": "overlapping and recursive calls on the real code (replay/schedules.py decorator)", "bound": "1..3 overlapping calls of a decorated coroutine function, generator-based and class-based managers, suspension points in enter/body/exit, raising bodies, suppressing managers, direct recursion, one cancellation; label bounded"}],
                explanation="a decorated call against the specification, for generator-based managers (fresh generator per call: the generator function is called once per call and only that generator is resumed/thrown into) and class-based ContextDecorator managers: enter before the body, exit after it with the body's exception (incl. BaseException/cancellation at every suspension), result/exception passed through unless suppressed"),
    "C16": dict(level="proof", extra=[extras.refs_validation, extras.groupby_native], canaries=[(CANARY, "canary:filter-yields-before-test")], trusted_base=TB_COMMON + ["reference class groupby/_grouper = transcription of CPython's groupbyobject/_grouperobject (validated differentially)", "one stale group handle represents all stale handles (their behaviour depends only on not being the current group)"],
                explanation="data structure against abstract view: GroupBy/_Grouper operations vs the transcribed itertools.groupby under an arbitrary history of {advance groupby, advance current group, advance stale group}; the consumer loop is a cut point, so histories and inputs are unbounded"),
    "C19": dict(level="proof", canaries=[(CANARY, "canary:filter-yields-before-test")],
                trusted_base=TB_COMMON + ["specification contracts/refs/ref_asynctools.py (written from the property text: which values are awaited, in which order, when)",
                                          "isinstance(x, Awaitable) / isinstance(x, AsyncIterable) decided per enumerated shape (A9)"],
                explanation="relational proof of any_iter (all 12 shape combinations), await_each, apply (positional/keyword splits) and sync against the adapter specification: same pulls, same awaits in the same order, only when the consumer asks; same result"),
    "C17": dict(level="proof", canaries=[(CANARY, "canary:filter-yields-before-test")], extra=[typing_pass.effect_pass],
                trusted_base=TB_COMMON + ["`await x` for a user awaitable passes loop traffic through unchanged (language semantics of await = yield from, A4): assumed, not proved"],
                explanation="effect typing: on every explored path of every job each `await` operand is a library coroutine / library generator method / library awaitable object (recursively typed) or an awaitable supplied by the user; statically: no asyncio import beyond iscoroutinefunction, no loop/sleep/lock/task primitive, no manual send/throw, no executable yield in a library __await__"),
    "C20": dict(level="proof", canaries=[(CANARY, "canary:filter-yields-before-test")], extra=[extras.retention],
                trusted_base=TB_COMMON + ["CPython frees an object when its last reference disappears; evaluation-stack temporaries do not outlive a statement; frame locals and containers reachable from them are the only roots a tool holds (generator-finaliser / GC effects not modelled)",
                                          "documented accumulators are exempt: cycle, sorted, list/tuple/set/dict builders; tee retains hist[min y_p:] = the lead (its invariant is proved under C09)"],
                bounded_note=[{"what": "nlargest/nsmallest window, containers of sub-iterators (chain.from_iterable), and every other tool once more natively (replay/retention.py)", "bound": "streams of 60 (thorough: 60 and 400) weakly referenced items with distinct / all tied / descending keys, alive items counted after every step against small-constant-per-source + documented window; label bounded"}],
                explanation="retain obligations at every loop head of every streaming tool and single-pass aggregation (each iteration passes one): the item-valued locals are a fixed finite set (count reported) and every container of items obeys the declared window as a loop invariant (batched: n; others: no symbolic-length container at all); for tee: every buffer is hist[y_p:] and nothing is buffered for a finished child"),
    "C18": dict(level="proof", canaries=[(CANARY, "canary:enumerate-leaks-source")], trusted_base=TB_COMMON,
                explanation="cancellation (BaseException thrown in at every suspension point): same exception propagates, sources released"),
}
