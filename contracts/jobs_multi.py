"""Jobs for multi-source tools, islice/batched, collection builders and sorted."""
from pyvc.driver import Job
from pyvc.values import *
import z3
from .jobs_basic import P_ITER, P_AGG, V, F, I, one_src, src_pred


def n_src(n, pre=None, kw=None, names="abcd", has_aclose=True):
    def mk(ctx, env):
        ss = [env.source(names[i], has_aclose=has_aclose) for i in range(n)]
        pr = [e(ctx, env) for e in (pre or [])]
        k = {nm: e(ctx, env) for nm, e in (kw or {}).items()}
        return dict(iargs=pr + ss, rargs=pr + ss, ikw=dict(k), rkw=dict(k))
    return mk


def C(v):
    return lambda ctx, env: v


def jobs():
    B, IT, RB, RI = "builtins", "itertools", "ref_builtins", "ref_itertools"
    J = []
    def add(name, impl, ref, mk, kind="gen", props=P_ITER, **kw):
        J.append(Job(name, impl, ref, mk, kind=kind, props=props, **kw))
    for n in (0, 1, 2, 3):
        add(f"zip[{n}]", (B, "zip"), (RB, "zip"), n_src(n), thorough=(n == 3))
        if n:
            add(f"zip[{n},strict]", (B, "zip"), (RB, "zip"), n_src(n, kw={"strict": C(True)}))
            add(f"map[{n}]", (B, "map"), (RB, "map"), n_src(n, pre=[F("function")]))
        add(f"zip_longest[{n}]", (IT, "zip_longest"), (RI, "zip_longest"), n_src(n, kw={"fillvalue": V("fill")}))
    add("zip_longest[2,nofill]", (IT, "zip_longest"), (RI, "zip_longest"), n_src(2))
    add("compress", (IT, "compress"), (RI, "compress"), n_src(2))
    def iter_sent(ctx, env):
        f = env.fn("subject"); s = env.val("sentinel")
        return dict(iargs=[f, s], rargs=[f, s])
    add("iter[callable,sentinel]", (B, "iter"), (RB, "iter_sentinel"), iter_sent, release=False)
    # islice shapes
    def isl(*spec):
        def mk(ctx, env):
            s = env.source("a")
            args = []
            for i, sp in enumerate(spec):
                nm = ["p0", "p1", "p2"][i]
                if sp is None:
                    args.append(None)
                elif sp == "step":
                    args.append(env.int(nm, 1))
                else:
                    args.append(env.int(nm, 0))
            return dict(iargs=[s] + args, rargs=[s] + list(args))
        return mk
    add("islice[stop]", (IT, "islice"), (RI, "islice"), isl("n"))
    add("islice[None]", (IT, "islice"), (RI, "islice"), isl(None))
    add("islice[start,None]", (IT, "islice"), (RI, "islice"), isl("n", None))
    # shapes with start+stop or a step: contracts/jobs_islice.py (declared modular invariant, DESIGN A.1)
    add("batched[n]", (IT, "batched"), (RI, "batched"), one_src([lambda ctx, env: SInt(z3.Int("n"))]), opts={"fresh_ok": True, "window": lambda v: SInt(z3.Int("n"))})
    add("batched[n,strict]", (IT, "batched"), (RI, "batched"), one_src([lambda ctx, env: SInt(z3.Int("n")), C(True)]), opts={"fresh_ok": True, "window": lambda v: SInt(z3.Int("n"))})
    # collection builders and sorted
    for nm, rn in (("list", "list_"), ("tuple", "tuple_"), ("set", "set_"), ("dict", "dict_")):
        add(nm, (B, nm), (RB, rn), one_src(), kind="coro", props=P_AGG, opts={"accumulates": "documented: collection builder"})
    add("sorted[]", (B, "sorted"), (RB, "sorted_"), one_src(), kind="coro", props=P_AGG, opts={"accumulates": "documented: sorted holds everything"})
    add("sorted[reverse]", (B, "sorted"), (RB, "sorted_"), one_src(kw={"reverse": C(True)}), kind="coro", props=P_AGG, opts={"accumulates": "documented: sorted holds everything"})
    add("sorted[key]", (B, "sorted"), (RB, "sorted_"), one_src(kw={"key": F("key")}), kind="coro", props=("C02", "C04", "C18"))
    add("sorted[key,reverse]", (B, "sorted"), (RB, "sorted_"), one_src(kw={"key": F("key"), "reverse": C(True)}), kind="coro", props=("C02", "C04", "C18"))
    return J
