"""Jobs for cached_property (C12)."""
import z3
from pyvc.driver import Job
from pyvc.values import *
from pyvc.interp import ClassVal


def _make_instances(ip, H, n=2):
    """impl side: a user class with the descriptor as class attribute `data`, and its instances"""
    cp = H["self"]
    cls = ClassVal(None, None, name="UserClass")
    cls.attrs["data"] = cp
    m = cp.cls.lookup("__set_name__")
    yield from ip.call(m, [cp, cls, "data"], {})
    for i in range(1, n + 1):
        o = Obj(cls)
        o.tag = f"instance{i}"
        H[f"inst{i}"] = o


class CachedPropertyProtocol:
    """C12 sequential histories over {access (take the placeholder), await it later, access+await, del, failing getter, second instance}"""
    def available(self, H):
        if "inst1" not in H:
            return ["setup"]
        ops = ["access(1)", "await(1)", "del(1)", "await(2)"]
        if "h1" in H:
            ops.append("await-handle(1)")
        return ops

    def perform(self, ip, H, op):
        impl = ip.side == "impl"
        env = ip.env
        if op == "setup":
            if impl:
                yield from _make_instances(ip, H)
            else:
                for i in (1, 2):
                    H[f"inst{i}"] = yield from ip.call(ip.getattr(H["self"], "instance"), [Sentinel(f"instance{i}")], {})
            return None
        i = op[-2]
        inst = H[f"inst{i}"]

        def access():
            if impl:
                r = ip.getattr(inst, "data")
                return (yield from ip.resolve_attr(r))
            return (yield from ip.call(ip.getattr(inst, "access"), [], {}))

        def await_handle(h):
            if impl:
                return (yield from ip.await_(h))
            return (yield from ip.call(ip.getattr(inst, "await_handle"), [h], {}))
        if op.startswith("access("):
            H[f"h{i}"] = yield from access()
            return None
        if op.startswith("await-handle("):
            return (yield from await_handle(H[f"h{i}"]))
        if op.startswith("await("):
            h = yield from access()
            return (yield from await_handle(h))
        if op.startswith("del("):
            if impl:
                # `del instance.data`: python removes the instance-dict entry; the descriptor defines no __delete__
                if "data" in inst.f:
                    del inst.f["data"]
                    return None
                raise PyRaise(ExcVal("AttributeError", ident=("attr", "data")))
            yield from ip.call(ip.getattr(inst, "delete"), [], {})
            return None
        raise KeyError(op)


def jobs():
    def mk(ctx, env):
        g = env.fn("getter", flavour="corofn")
        return dict(iargs=[g], rargs=[g])
    O = {"protocol": CachedPropertyProtocol(), "direct_calls_ok": True, "ret_kinds": {"getter": "awaitable"}, "snapshot": True,
         "under_contract": [("functools", "cached_property"), ("functools", "CachedProperty"), ("functools", "_FutureCachedPropertyValue"), ("functools", "AwaitableValue")]}
    return [Job("cached_property[sequential]", ("functools", "cached_property"), ("ref_cached_property", "cached_property"), mk, kind="protocol",
                props=("C12", "C18"), closes=False, release=False, faults=True, max_paths=20000, opts=O)]


# =====================================================================================================
# concurrency: rely-guarantee at the suspension points of `_await_impl`
# =====================================================================================================
returned = z3.Function("returned", Val, z3.BoolSort())        # ghost: some getter run returned this value


def _slot_kind(inst):
    v = inst.f.get("data")
    if v is None:
        return "absent", None
    if isinstance(v, Obj) and v.cls.name == "AwaitableValue":
        return "value", v
    return "placeholder", v


def cp_interfere(verifier, ctx, ev, holding_lock=None):
    """other tasks run while this awaiter is suspended: the shared slot becomes ANY state the invariant allows -
    absent (deleted), the same placeholder, a new placeholder (deleted and accessed again) or a cached value that
    some getter run returned.  While this task holds the placeholder's lock nobody else completes a run for it."""
    H = verifier.impl_i.roots
    inst = H.get("inst1")
    if inst is None or "h1" not in H:
        return
    ip = verifier.impl_i
    P = H["h1"]
    ghost = H["ghost"]
    opts = ["unchanged"]
    changes = int(ghost.get("changes", "0"))
    if changes < 2:
        # bound: at most two interfering CHANGES of the slot per awaiter (each an arbitrary allowed state);
        # a deleted slot makes the awaiter start over with a new placeholder, so changes could repeat for ever
        opts += ["deleted", "value-cached", "new-placeholder"]
    c = opts[ctx.choose(len(opts), "interference on the slot")] if len(opts) > 1 else "unchanged"
    if c != "unchanged":
        ghost["changes"] = str(changes + 1)
    cur_kind, cur = _slot_kind(inst)
    we_hold = any(cm.held > 0 for cm in verifier.env.cms.values())
    if c == "deleted":
        inst.f.pop("data", None)
    elif c == "new-placeholder":
        q = Obj(P.cls)
        q.f = dict(P.f)
        if "_lock" in q.f and isinstance(q.f["_lock"], UserCM):
            q.f["_lock"] = verifier.env.cm("lock-of-other-placeholder", "async")
        inst.f["data"] = q
    elif c == "value-cached":
        v = Opaque(ctx.fresh(Val, "value_of_other_run"))
        ctx.assume(returned(v.t))
        av = Obj(verifier.impl_prog.module("functools").lookup("AwaitableValue"))
        av.f["value"] = v
        inst.f["data"] = av
        # a value replacing OUR placeholder can only come from a completed run for it - impossible while we hold its lock
        if cur is P:
            if we_hold:
                raise Infeasible()
            from pyvc.interp import mk_int, as_int
            ghost["done"] = mk_int(as_int(ghost["done"]) + 1)
    verifier.trace.append(("interference by other tasks", c))


class CachedPropertyOverlapProtocol:
    def __init__(self, with_lock):
        self.with_lock = with_lock

    def available(self, H):
        if "inst1" not in H:
            return ["setup"]
        if "h1" not in H:
            return ["access(1)"]
        if "awaited" not in H:
            return ["await-handle(1)"]
        return []

    def perform(self, ip, H, op):
        if op == "setup":
            H["ghost"] = {"done": 0, "runs": 0}
            yield from _make_instances(ip, H, 1)
            return None
        inst = H["inst1"]
        if op == "access(1)":
            r = ip.getattr(inst, "data")
            H["h1"] = yield from ip.resolve_attr(r)
            return None
        H["awaited"] = "1"
        return (yield from ip.await_(H["h1"]))

    def expect(self, verifier, op, outcome):
        if op != "await-handle(1)":
            return []
        out = []
        for cm in verifier.env.cms.values():
            out.append((f"lock-released/{cm.name}", cm.held == 0, f"lock {cm.name} is still held after the awaiter finished with {outcome[0]}"))
        if outcome[0] == "ok" and isinstance(outcome[1], Opaque):
            out.append(("value-was-returned-by-a-getter-run", returned(outcome[1].t),
                        "the awaiter received a value no getter run returned"))
        return out


def cp_respond(verifier, ctx, ev, env):
    return None


def cp_at_suspension(verifier, ctx, ev):
    cp_interfere(verifier, ctx, ev)


def _overlap_jobs():
    out = []
    for with_lock in (False, True):
        def mk(ctx, env, with_lock=with_lock):
            g = env.fn("getter", flavour="corofn")
            kw = {"asynccontextmanager_type": env.fn("LockType", flavour="sync")} if with_lock else {}
            return dict(iargs=[g], rargs=[g], ikw=kw, rkw=kw)
        O = {"protocol": CachedPropertyOverlapProtocol(with_lock), "direct_calls_ok": True,
             "ret_kinds": {"getter": "awaitable", "LockType": "cm"}, "at_suspension": cp_at_suspension, "ghost_cp": True,
             "cp_lock": with_lock, "snapshot": True,
             "under_contract": [("functools", "CachedProperty"), ("functools", "_FutureCachedPropertyValue"), ("functools", "AwaitableValue")]}
        out.append(Job(f"cached_property-overlap[{'lock' if with_lock else 'no lock'}]", ("functools", "CachedProperty"), None, mk, kind="protocol",
                       props=("C12", "C18"), closes=False, release=False, faults=True, max_paths=20000, opts=O))
    return out


_jobs_seq = jobs


def jobs():
    return _jobs_seq() + _overlap_jobs()
