"""Jobs for tee (C09, C04): Owicki-Gries style invariant `buffer_p = hist[y_p:]` over the real tee_peer code."""
import z3
from pyvc.driver import Job
from pyvc.values import *
from pyvc.interp import as_int, mk_int


def _children(H):
    return H["self"].f["_children"]


def _peers(H):
    return H["self"].f["_buffers"]


def _buffer_of(child):
    return child.f["_buffer"]


def tee_invariant(verifier):
    """I: every registered buffer holds exactly the fetched-but-not-yet-yielded items of its child, in order"""
    H = verifier.impl_i.roots
    if "ghost" not in H:
        return []
    g = H["ghost"]
    hist = g["hist"].to_seq()
    n = z3.Length(hist)
    out = []
    peers = _peers(H).items
    for i, child in enumerate(_children(H)):
        buf = _buffer_of(child)
        registered = any(b is buf for b in peers)
        y = as_int(g[f"y{i}"])
        if registered:
            out.append((f"child {i}: 0 <= yielded <= fetched", z3.And(y >= 0, y <= n)))
            out.append((f"child {i}: buffer == hist[yielded:]", buf.to_seq() == z3.SubSeq(hist, y, n - y)))
        if f"done{i}" in H:
            out.append((f"child {i}: finished child is not buffered for", not registered))
            out.append((f"child {i}: nothing is buffered for a finished child", z3.Length(buf.to_seq()) == as_int(H[f"deadlen{i}"])))
            out.append((f"child {i}: a finished child retains no backlog", z3.Length(buf.to_seq()) == 0))
    if "cur" in H:
        # an advance of child `cur` is in progress: the ghost copy of its counter taken at the start is still current
        out.append(("in-progress advance: remembered counter is current", as_int(H["last_y"]) == as_int(g[f"y{H['cur']}"])))
    src = verifier.env.sources["a"]
    if src.has_aclose:
        live = len(peers) > 0
        out.append(("source closed exactly when no child is left", (src.closes >= 1) == (not live) if src.pulls > 0 or not live else True))
    return out


def hist_extended(verifier, ctx, old_hist, extra):
    """lemma instances (proved once per run: contracts/extras.py seq_suffix_lemma) for every child counter y:
         0 <= y <= |h|  =>  h[y:] ++ e == (h ++ e)[y:]
    z3's sequence solver does not find this by itself inside the large path conditions of the lock jobs"""
    H = verifier.impl_i.roots
    g = H.get("ghost")
    if not g:
        return
    n = z3.Length(old_hist)
    new = z3.Concat(old_hist, extra)
    for k in list(g):
        if k.startswith("y") and k[1:].isdigit():
            y = as_int(g[k])
            y = y if not isinstance(y, int) else z3.IntVal(y)
            ctx.assume(z3.Implies(z3.And(y >= 0, y <= n),
                                  z3.Concat(z3.SubSeq(old_hist, y, n - y), extra) == z3.SubSeq(new, y, n + z3.Length(extra) - y)))


def suffix_lemmas(ctx, h, y):
    """lemma instances (proved once per run: extras.seq_suffix_lemma): for 0 <= y < |h|
         (h[y:])[1:] == h[y+1:]   and   (h[y:])[0] == h[y]"""
    n = z3.Length(h)
    y = y if not isinstance(y, int) else z3.IntVal(y)
    suf = z3.SubSeq(h, y, n - y)
    ctx.assume(z3.Implies(z3.And(y >= 0, y < n),
                          z3.And(z3.SubSeq(suf, 1, n - y - 1) == z3.SubSeq(h, y + 1, n - y - 1), suf[0] == h[y])))


class TeeProtocol:
    def __init__(self, n):
        self.n = n

    def available(self, H):
        if "ghost" not in H:
            return ["setup"]
        ops = []
        for i in range(self.n):
            if f"done{i}" not in H:
                ops += [f"next({i})", f"close({i})"]
        return ops

    def perform(self, ip, H, op):
        if op == "setup":
            g = {"hist": SList(seq=z3.Empty(SeqVal), kind="ghost")}
            for i in range(self.n):
                g[f"y{i}"] = 0
            H["ghost"] = g
            return None
        i = int(op[-2])
        child = _children(H)[i]
        g = H["ghost"]
        if op.startswith("next("):
            H["last_y"] = g[f"y{i}"]
            H["cur"] = str(i)
            try:
                v = yield from ip.pull(child)
            except PyRaise:
                H[f"done{i}"] = "1"
                H[f"deadlen{i}"] = mk_int(z3.Length(_buffer_of(child).to_seq()))
                del H["cur"]
                raise
            del H["cur"]
            if ip.side == "impl":
                suffix_lemmas(ip.ctx, g["hist"].to_seq(), as_int(g[f"y{i}"]))
            g[f"y{i}"] = mk_int(as_int(g[f"y{i}"]) + 1)
            return v
        m = ip.getattr(child, "aclose")
        r = yield from ip.call(m, [], {})
        yield from ip.await_(r)
        H[f"done{i}"] = "1"
        H[f"deadlen{i}"] = mk_int(z3.Length(_buffer_of(child).to_seq()))
        return None

    def expect(self, verifier, op, outcome):
        H = verifier.impl_i.roots
        if "ghost" not in H or not op.startswith("next("):
            return []
        g = H["ghost"]
        hist = g["hist"].to_seq()
        i = int(op[-2])
        out = []
        if outcome[0] == "ok" and isinstance(outcome[1], Opaque):
            y_old = as_int(H["last_y"])
            out.append(("child-yields-the-next-source-item", z3.And(y_old >= 0, y_old < z3.Length(hist), outcome[1].t == hist[y_old]),
                        f"child {i} yielded something else than the next item of the source sequence"))
        elif outcome[0] == "raise" and outcome[1].cls == "StopAsyncIteration":
            out.append(("child-ends-only-after-the-full-sequence", as_int(g[f"y{i}"]) == z3.Length(hist),
                        f"child {i} ended before it had yielded every fetched item"))
        return out


def jobs():
    J = []
    for n, thorough in ((2, False), (3, True)):
        def mk(ctx, env, n=n):
            s = env.source("a", has_aclose=True, kind="gen")
            return dict(iargs=[s, n], rargs=[s, n])
        J.append(Job(f"tee[n={n},no lock]", ("itertools", "tee"), None, mk, kind="protocol", props=("C09", "C04", "C01", "C20"), closes=False, release=False,
                     faults=True, thorough=thorough, max_paths=30000,
                     opts={"protocol": TeeProtocol(n), "budget_s": 1500 if n == 2 else 900, "state_invariant": tee_invariant, "ghost_tee": True, "ghost_lemma": hist_extended, "fault_kinds": ("raise",), "declared_only": True, "widen_lists": True, "lock_contract": True, "accumulates": "tee buffers hold the lead hist[y_p:] (invariant)", "fresh_solver": True,
                           "under_contract": [("itertools", "tee"), ("itertools", "tee_peer"), ("itertools", "_TeePeer"), ("itertools", "NoLock")]}))
    return J


def tee_interfere(verifier, ctx, ev):
    """other children run while this child is suspended at the lock / inside the source (rely = the invariant):
    they yield from their buffers, may be closed, and - unless this child holds the lock - fetch further items"""
    H = verifier.impl_i.roots
    if "ghost" not in H:
        return
    only = verifier.job.opts.get("interfere_only")
    if only is not None:
        what = ("enter" if ev.payload[1] == "enter" else "exit") if ev.kind == "CM" else "pull"
        if what not in only:
            return
    simple = bool(verifier.job.opts.get("interfere_simple"))
    g = H["ghost"]
    frames = [fr for fr in verifier.impl_i.frames if fr.name == "tee_peer"]
    if not frames:
        return
    # the child whose advance is in progress (TeeProtocol.perform records it); suspended siblings have frames too
    mybuf = _buffer_of(_children(H)[int(H["cur"])]) if "cur" in H else frames[-1].env.get("buffer")
    peers = _peers(H).items
    # Owicki-Gries: the other children rely on the invariant, so it has to hold wherever they can run
    if not verifier.check_state_invariant(ctx, None, "at a suspension point inside an advance"):
        from pyvc.values import PathEnd
        raise PathEnd()
    lock = verifier.env.cms.get("lock")
    holding = lock is not None and lock.held > 0
    if ev.kind == "CM" and ev.payload[1] == "exit":
        holding = False         # a release may suspend after the lock is free again: siblings can acquire it and fetch
    if ev.kind == "Pull" and lock is not None:
        verifier.prove(ctx, f"{verifier.job.name}/mutex/source-advanced-only-under-the-lock", "og-inv", holding,
                       detail="the source is advanced without holding the lock: two consumers could be inside the source at once")
    src = verifier.env.sources.get("a")
    # siblings fetch only while the lock is free and the source has not ended / failed
    can_fetch = not holding and not (src is not None and (src.ended or src.state in ("exhausted", "raised", "closed")))
    hist = g["hist"].to_seq()
    if can_fetch:
        extra = ctx.fresh(SeqVal, "fetched_by_others")
        hist2 = z3.Concat(hist, extra)
        hist_extended(verifier, ctx, hist, extra)
        g["hist"].seq = hist2
    else:
        extra = None
        hist2 = hist
    n2 = z3.Length(hist2)
    for q, child in enumerate(_children(H)):
        buf = _buffer_of(child)
        if not any(b is buf for b in peers):
            continue
        if buf is mybuf:
            if extra is not None:
                buf.widen()
                if "cur" in H:
                    # invariant (just checked) + lemma: buffer ++ extra == hist2[y:]
                    y_me = as_int(g[f"y{H['cur']}"])
                    buf.seq = z3.SubSeq(hist2, y_me, n2 - y_me)
                else:
                    buf.seq = z3.Concat(buf.seq, extra)
            continue
        if not simple and ctx.choose(2, f"interference: child {q} closed meanwhile") == 1:
            for idx, b in enumerate(peers):
                if b is buf:
                    peers.pop(idx)
                    break
            # _TeePeer.aclose of the sibling: unregisters its buffer and drops its backlog
            buf.widen()
            buf.seq = z3.Empty(SeqVal)
            H[f"done{q}"] = "1"
            H[f"deadlen{q}"] = 0
            continue
        y_old = as_int(g[f"y{q}"])
        y2 = ctx.fresh(z3.IntSort(), f"y{q}")
        ctx.assume(z3.And(y2 >= y_old, y2 <= n2))
        g[f"y{q}"] = SInt(y2)
        buf.widen()
        buf.seq = z3.SubSeq(hist2, y2, n2 - y2)
    verifier.trace.append(("interference by other children", "may fetch" if can_fetch else "no fetch (lock held)"))


def tee_lock_invariant(verifier):
    out = tee_invariant(verifier)
    lock = verifier.env.cms.get("lock")
    if lock is not None and not any(fr.name == "tee_peer" and fr.gen is not None and fr.gen.state == "running" for fr in verifier.impl_i.frames):
        out.append(("the lock is free while every child is suspended at its yield", lock.held == 0))
    return out


def _lock_jobs():
    out = []
    n = 2
    def mk(ctx, env):
        s = env.source("a", has_aclose=True, kind="gen")
        lock = env.cm("lock", "async")
        return dict(iargs=[s, n], rargs=[s, n], ikw={"lock": lock}, rkw={"lock": lock})
    out.append(Job(f"tee[n={n},lock]", ("itertools", "tee"), None, mk, kind="protocol", props=("C09", "C18", "C04", "C20"), closes=False, release=False,
                   faults=True, max_paths=30000,
                   opts={"protocol": TeeProtocol(n), "state_invariant": tee_lock_invariant, "ghost_tee": True, "ghost_lemma": hist_extended, "fault_kinds": ("raise", "cancel"), "declared_only": True, "widen_lists": True, "lock_contract": True, "accumulates": "tee buffers hold the lead hist[y_p:] (invariant)", "thorough_only": True,
                         "fresh_solver": True, "at_suspension": tee_interfere, "suspend_at_pull": True, "budget_s": 900,
                         "under_contract": [("itertools", "tee"), ("itertools", "tee_peer"), ("itertools", "_TeePeer")]}))
    # interference at ONE kind of suspension point per job (they run in parallel): while waiting for the lock (other
    # children fetch and yield meanwhile: the case the re-check after acquiring the lock exists for), while the lock
    # is being released (the fetched item must already be published), and inside the source with the lock held (other
    # children yield from their buffers but cannot fetch).  Siblings are not closed meanwhile and nothing fails in these
    # jobs; the thorough-only job above combines all of it.
    for point, label in (("enter", "interference while waiting for the lock"), ("exit", "interference while releasing the lock"),
                         ("pull", "interference inside the source")):
        out.append(Job(f"tee[n={n},lock,{label}]", ("itertools", "tee"), None, mk, kind="protocol", props=("C09", "C18", "C04", "C20"),
                       closes=False, release=False, faults=False, max_paths=30000,
                       opts={"protocol": TeeProtocol(n), "state_invariant": tee_lock_invariant, "ghost_tee": True, "ghost_lemma": hist_extended,
                             "declared_only": True, "widen_lists": True, "fresh_solver": True, "lock_contract": True,
                             "at_suspension": tee_interfere, "suspend_at_pull": point == "pull", "interfere_only": (point,), "interfere_simple": True, "budget_s": 1200,
                             "accumulates": "tee buffers hold the lead hist[y_p:] (invariant)",
                             "under_contract": [("itertools", "tee"), ("itertools", "tee_peer"), ("itertools", "_TeePeer")]}))
    # the same with a user lock but without interference inside the lock/source (children interleave at their yields
    # only): cheap, and enough for `the lock is never held across a yield` and for lock release on faults
    out.append(Job(f"tee[n={n},lock,interleaving at yields]", ("itertools", "tee"), None, mk, kind="protocol", props=("C09", "C18", "C04", "C20"),
                   closes=False, release=False, faults=True, max_paths=30000,
                   opts={"protocol": TeeProtocol(n), "state_invariant": tee_lock_invariant, "ghost_tee": True, "ghost_lemma": hist_extended, "fault_kinds": ("raise", "cancel"),
                         "declared_only": True, "widen_lists": True, "lock_contract": True, "fresh_solver": True,
                         "accumulates": "tee buffers hold the lead hist[y_p:] (invariant)",
                         "under_contract": [("itertools", "tee"), ("itertools", "tee_peer"), ("itertools", "_TeePeer")]}))
    return out


_jobs_nolock = jobs


def jobs():
    return _jobs_nolock() + _lock_jobs()
