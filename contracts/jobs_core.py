"""C03: the contracts of the `_core` helpers proved per flavour on the real code (no contract overrides)."""
from pyvc.driver import Job
from pyvc.values import *

O = {"impl_root": "contracts/adapters", "extra_modules": ("core_adapters",), "direct_calls_ok": True}
P = ("C03", "C04")


def jobs():
    J = []
    RA = "ref_asynctools"
    for kind, has_aclose in (("gen", True), ("class", True), ("class", False), ("sync", False)):
        def mk(ctx, env, kind=kind, has_aclose=has_aclose):
            s = env.source("a", has_aclose=has_aclose, kind=kind)
            return dict(iargs=[s], rargs=[s])
        for fn in ("iterate", "iterate_scoped", "iterate_borrowed"):
            J.append(Job(f"_core.{fn}[{kind},aclose={int(has_aclose)}]", ("core_adapters", fn), (RA, "iterate"), mk, props=P if fn != "iterate" else ("C03",),
                         overrides="none", release=(fn != "iterate"),
                         opts=dict(O, under_contract=[("_core", "aiter"), ("_core", "_aiter_sync"), ("_core", "ScopedIter"), ("_core", "borrow")])))
    for n in (0, 2):
        def mk_list(ctx, env, n=n):
            t = tuple(env.val(f"x{i}") for i in range(n))
            return dict(iargs=[t], rargs=[t])
        J.append(Job(f"_core.iterate[tuple of {n}]", ("core_adapters", "iterate"), (RA, "iterate"), mk_list, props=("C03",), overrides="none", release=False,
                     opts=dict(O, under_contract=[("_core", "aiter"), ("_core", "_aiter_sync")])))
    for flav, ret_aw in (("sync", False), ("corofn", True), ("awaitable", True)):
        def mk_call(ctx, env, flav=flav, ret_aw=ret_aw):
            f = env.fn("function", flavour=flav)
            a, b = env.val("a"), env.val("b")
            return dict(iargs=[f, a, b], rargs=[f, ret_aw, a, b])
        o = dict(O, val_protocols={"__await__": False}, under_contract=[("_core", "awaitify"), ("_core", "Awaitify"), ("_core", "await_value"), ("_core", "force_async")])
        if ret_aw:
            o["ret_kinds"] = {"function": "awaitable"}
        J.append(Job(f"_core.awaitify[{flav}]", ("core_adapters", "call_twice"), (RA, "call_twice"), mk_call, kind="coro", props=("C03", "C06"), overrides="none",
                     release=False, opts=o))
    return J
