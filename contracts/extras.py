"""Extra (non-SMT) parts of checks: bounded native stand-ins, drift checks.  Each returns job-result dicts in
the format of pyvc.runner.summarise; bounded parts are reported with kind `bounded` and are never counted as
discharged proof obligations (they only raise violations)."""
import json
import os
import subprocess

VERIF = os.path.dirname(os.path.dirname(os.path.abspath(__file__)))


def _result(job, props, obligations):
    return {"job": job, "props": list(props), "kind": "static", "impl": None, "functions": [], "ref": None,
            "obligations": obligations, "paths": 1, "solver_s": 0.0, "queries": 0, "wall_s": 0.0, "rounds": 0, "repolls": 0,
            "undecided": None, "invariants": {}, "samples": [], "mode": "bounded", "synthetic": True}


def _native(script, repo, *args, timeout=600):
    try:
        p = subprocess.run(["/venv/bin/python", os.path.join(VERIF, "replay", script), *args], capture_output=True, text=True, timeout=timeout,
                           env={**os.environ, "PYTHONPATH": repo})
    except subprocess.TimeoutExpired:
        return {"error": f"{script} {' '.join(args)} did not finish within {timeout}s"}
    try:
        return json.loads(p.stdout.strip().splitlines()[-1])
    except Exception:
        return {"error": (p.stderr or p.stdout)[-2000:]}


def callkey_partition(repo, tier):
    r = _native("bounded.py", repo, "callkey")
    if "error" in r:
        return [dict(_result("bounded:callkey-partition", ("C10",), []), crash=r["error"])]
    ob = {"name": "bounded/callkey-partition", "kind": "bounded", "status": "discharged" if not r["violations"] else "failed", "count": 0,
          "detail": f"{r['cases']} pattern pairs compared; " + ("; ".join(r["violations"][:3]) if r["violations"] else "no difference"),
          "model": None, "trace": None, "native": r if r["violations"] else None}
    return [_result("bounded:callkey-partition", ("C10",), [ob])]


def refs_drift(repo, tier):
    p = subprocess.run(["/venv/bin/python", os.path.join(VERIF, "tools", "extract_refs.py"), "--check"], capture_output=True, text=True, timeout=120)
    ok = p.returncode == 0
    ob = {"name": "refs/extracted-matches-installed-cpython", "kind": "bounded", "status": "discharged" if ok else "failed", "count": 0,
          "detail": p.stdout.strip()[-300:], "model": None, "trace": None}
    res = _result("drift:extracted-references", ("C13",), [ob])
    if not ok:
        res["crash"] = "extracted reference differs from the installed CPython: " + p.stdout.strip()[-200:]
    return [res]


def refs_validation(repo, tier):
    """the reference functions of contracts/refs against the running CPython (bounded differential validation of
    the contracts themselves; a mismatch is a CONTRACT error -> CHECKER-ERROR, never a violation of asyncstdlib)"""
    r = _native("bounded.py", repo, "refs", tier)
    if "error" in r:
        return [dict(_result("validate:references-vs-cpython", (), []), crash=r["error"])]
    res = _result("validate:references-vs-cpython", (), [])
    res["validation"] = {"cases": r["cases"], "mismatches": r["violations"][:5]}
    if r["violations"]:
        res["crash"] = "reference function disagrees with CPython: " + r["violations"][0][:300]
    return [res]


def modulus_lemma(repo, tier):
    """the arithmetic fact supplied to the islice proofs: for k >= 0, s >= 1
       (k+1) mod s = ite(k mod s + 1 = s, 0, k mod s + 1)  and  0 <= k mod s < s      (proved here, once per run)"""
    import time
    import z3
    k, s = z3.Ints("k s")
    goal = z3.Implies(z3.And(k >= 0, s >= 1),
                      z3.And((k + 1) % s == z3.If(k % s + 1 == s, 0, k % s + 1), k % s >= 0, k % s < s))
    sol = z3.Solver()
    sol.set("timeout", 60000)
    sol.add(z3.Not(goal))
    t = time.time()
    r = sol.check()
    ob = {"name": "lemma/modulus-step", "kind": "inv-declared", "status": "discharged" if r == z3.unsat else ("failed" if r == z3.sat else "unknown"),
          "count": 1, "detail": f"z3 says {r} in {time.time() - t:.2f}s", "model": None, "trace": None}
    res = _result("lemma:modulus-step", ("C01", "C05"), [ob])
    res["mode"] = "prove"
    return [res]


def seq_suffix_lemma(repo, tier):
    """the sequence facts supplied (as instances) to the tee proofs, contracts/jobs_tee.py hist_extended / suffix_lemmas:
         0 <= y <= |h|  =>  h[y:] ++ e == (h ++ e)[y:]
         0 <= y <  |h|  =>  (h[y:])[1:] == h[y+1:]
         0 <= y <  |h|  =>  (h[y:])[0] == h[y]                     (each proved here once per run, by z3 and/or cvc5)"""
    import time
    import z3
    from pyvc.values import SeqVal
    h, e = z3.Const("h", SeqVal), z3.Const("e", SeqVal)
    y = z3.Int("y")
    n = z3.Length(h)
    suf = z3.SubSeq(h, y, n - y)
    goals = {
        "append": z3.Implies(z3.And(y >= 0, y <= n), z3.Concat(suf, e) == z3.SubSeq(z3.Concat(h, e), y, n + z3.Length(e) - y)),
        "tail": z3.Implies(z3.And(y >= 0, y < n), z3.SubSeq(suf, 1, n - y - 1) == z3.SubSeq(h, y + 1, n - y - 1)),
        "head": z3.Implies(z3.And(y >= 0, y < n), suf[0] == h[y]),
    }
    obs = []
    allok = True
    for gname, goal in goals.items():
        sol = z3.Solver()
        sol.set("timeout", 30000)
        sol.add(z3.Not(goal))
        t = time.time()
        r = sol.check()
        detail = f"z3 says {r} in {time.time() - t:.2f}s"
        ok = r == z3.unsat
        try:
            t = time.time()
            p = subprocess.run(["/usr/bin/cvc5", "--strings-exp", "--lang=smt2", "--tlimit=60000"],
                               input="(set-logic ALL)\n" + sol.to_smt2().replace("seq.nth_i", "seq.nth"), capture_output=True, text=True, timeout=90)
            ans = p.stdout.strip().splitlines()[0] if p.stdout.strip() else "?"
            detail += f"; cvc5 says {ans} in {time.time() - t:.2f}s"
            ok = ok or ans == "unsat"
            if ans == "sat" or r == z3.sat:
                ok = False
        except Exception as ex:
            detail += f"; cvc5 not run ({ex!r})"
        allok &= ok
        obs.append({"name": f"lemma/seq-suffix-{gname}", "kind": "inv-declared", "status": "discharged" if ok else ("failed" if r == z3.sat else "unknown"),
                    "count": 1, "detail": detail, "model": None, "trace": None})
    res = _result("lemma:seq-suffix", ("C09", "C20", "C04", "C01", "C18"), obs)
    res["mode"] = "prove"
    if not allok:
        res["crash"] = "a sequence lemma assumed by the tee jobs could not be proved: " + "; ".join(o["detail"] for o in obs if o["status"] != "discharged")
    return [res]


def _schedules(what, prop, repo, tier):
    """bounded native exploration of cooperative schedules of the real code (replay/schedules.py): stand-in for what
    the deductive jobs leave out and the source of concrete failing schedules (label: bounded, never counted as proved)"""
    r = _native("schedules.py", repo, what, tier, timeout=3000)
    name = f"bounded:{what}-schedules"
    if "error" in r:
        return [dict(_result(name, (prop,), []), crash=r["error"])]
    v = r["violations"]
    ob = {"name": f"bounded/{what}-schedules", "kind": "bounded", "status": "discharged" if not v else "failed", "count": 0,
          "detail": f"{r['schedules']} schedules of {r['scenarios']} scenarios on the real code; {r['bound']}; "
                    + (f"first violation: {json.dumps(v[0])[:700]}" if v else "no violation"),
          "model": None, "trace": None, "native": {"violation": v[0], "more": v[1:3]} if v else None}
    return [_result(name, (prop,), [ob])]


def tee_schedules(repo, tier):
    return _schedules("tee", "C09", repo, tier)


def lru_schedules(repo, tier):
    return _schedules("lru", "C11", repo, tier)


def cached_property_schedules(repo, tier):
    return _schedules("cached_property", "C12", repo, tier)


def decorator_schedules(repo, tier):
    return _schedules("decorator", "C15", repo, tier)


def retention(repo, tier):
    """bounded native stand-in for C20 on the real code (replay/retention.py): weakly referenced streams through every
    streaming tool / single-pass aggregation, alive items counted after every step"""
    r = _native("retention.py", repo, tier, timeout=1500)
    if "error" in r:
        return [dict(_result("bounded:retention", ("C20",), []), crash=r["error"])]
    v = r["violations"]
    ob = {"name": "bounded/retention-native", "kind": "bounded", "status": "discharged" if not v else "failed", "count": 0,
          "detail": f"{r['cases']} tool/stream combinations; {r['bound']}; worst alive counts {r['worst']}; " + ("; ".join(v[:2]) if v else "no violation"),
          "model": None, "trace": None, "native": {"violation": v[0], "more": v[1:4]} if v else None}
    return [_result("bounded:retention", ("C20",), [ob])]


def groupby_native(repo, tier):
    """bounded native stand-in for C16 on the real code: asyncstdlib.groupby against itertools.groupby under random
    operation histories with arbitrary retained group handles (replay/bounded.py groupby)"""
    r = _native("bounded.py", repo, "groupby", tier, timeout=900)
    if "error" in r:
        return [dict(_result("bounded:groupby-native", ("C16",), []), crash=r["error"])]
    v = r["violations"]
    ob = {"name": "bounded/groupby-vs-itertools", "kind": "bounded", "status": "discharged" if not v else "failed", "count": 0,
          "detail": f"{r['cases']} histories; {r['bound']}; " + ("; ".join(v[:1]) if v else "no difference"),
          "model": None, "trace": None, "native": {"violation": v[0], "more": v[1:3]} if v else None}
    return [_result("bounded:groupby-native", ("C16",), [ob])]


def contextmanager_native(repo, tier):
    """bounded native stand-in for C13 on the real code: the abstract domain of the contextmanager jobs (generator
    behaviours x block outcomes) enumerated natively against contextlib.asynccontextmanager"""
    r = _native("native.py", repo, "--enumerate-contextmanager", timeout=600)
    if "error" in r:
        return [dict(_result("bounded:contextmanager-native", ("C13",), []), crash=r["error"])]
    v = r["violations"]
    ob = {"name": "bounded/contextmanager-vs-asynccontextmanager", "kind": "bounded", "status": "discharged" if not v else "failed", "count": 0,
          "detail": f"{r['cases']} combinations; {r['bound']}; " + ("; ".join(v[:2]) if v else "no difference"),
          "model": None, "trace": None, "native": {"violation": v[0], "more": v[1:4]} if v else None}
    return [_result("bounded:contextmanager-native", ("C13",), [ob])]


def lru_methods_c03(repo, tier):
    return lru_methods(repo, tier, prop="C03")


def lru_methods(repo, tier, prop="C10"):
    """lru_cache as method / classmethod / staticmethod, wrapping an async def / a partial of one / a callable object,
    against functools.lru_cache on the synchronous counterparts: bounded native stand-in on the real code"""
    r = _native("bounded.py", repo, "refs", tier)
    if "error" in r:
        return [dict(_result("bounded:lru-methods", (prop,), []), crash=r["error"])]
    v = r.get("lru_method_violations", [])
    ob = {"name": "bounded/lru-methods-vs-functools", "kind": "bounded", "status": "discharged" if not v else "failed", "count": 0,
          "detail": "random histories of method/classmethod/staticmethod calls (async def, partial, callable-object flavours) on two instances, cache_info, cache_clear; " + ("; ".join(v[:2]) if v else "no difference"),
          "model": None, "trace": None, "native": {"violation": v[0]} if v else None}
    return [_result("bounded:lru-methods", (prop,), [ob])]
