"""Test adapters (not library code): apply the REAL contextmanager / ContextDecorator from the working tree as a
decorator and call the decorated coroutine function once."""
from .contextlib import contextmanager, ContextDecorator


async def decorated_call_generator_manager(genfunc, func, arg):
    manager = contextmanager(genfunc)()
    decorated = manager(func)
    return await decorated(arg)


class UserManager(ContextDecorator):
    """a class-based manager that relies on the default `_recreate_cm` (returns itself)"""

    def __init__(self, cm):
        self.cm = cm

    async def __aenter__(self):
        return await self.cm.__aenter__()

    async def __aexit__(self, exc_type, exc_val, exc_tb):
        return await self.cm.__aexit__(exc_type, exc_val, exc_tb)


async def decorated_call_class_manager(cm, func, arg):
    decorated = UserManager(cm)(func)
    return await decorated(arg)
