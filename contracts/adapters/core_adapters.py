"""Test adapters (not library code) that exercise the REAL `_core` helpers from the working tree: the contract
of `aiter`/`awaitify`/`ScopedIter`/`borrow` that all tools are verified against is proved here per flavour."""
from ._core import aiter, awaitify, borrow, ScopedIter


async def iterate(x):
    async for item in aiter(x):
        yield item


async def iterate_scoped(x):
    async with ScopedIter(x) as it:
        async for item in it:
            yield item


async def iterate_borrowed(x):
    async with ScopedIter(x) as it:
        async for item in borrow(it):
            yield item
        async for item in it:
            yield item


async def call_twice(function, a, b):
    f = awaitify(function)
    r1 = await f(a)
    r2 = await f(b)
    return (r1, r2)
