"""Test adapter (not library code): `sync` returns a wrapper; the job needs to call it.  This two-line driver
calls the REAL asyncstdlib.asynctools.sync from the working tree and awaits the wrapper's result."""
from .asynctools import sync


async def call_through_sync(function, *args):
    return await sync(function)(*args)
