"""Jobs for contextlib: contextmanager (C13), ExitStack (C14), ContextDecorator (C15)."""
from pyvc.driver import Job
from pyvc.values import *
from .jobs_basic import V, F, I

BLOCK_OUTCOMES = ["none", "UserError", "UserBaseError", "StopIteration", "StopAsyncIteration", "RuntimeError", "GeneratorExit", "KeyboardInterrupt"]


class CMProtocol:
    """enter the manager, then leave the block in one of the enumerated ways"""
    def __init__(self, outcome):
        self.outcome = outcome

    def available(self, H):
        if "cm" not in H:
            return ["create"]
        if "entered" not in H:
            return ["enter"]
        if "exited" not in H:
            return ["exit:" + self.outcome]
        return []

    def perform(self, ip, H, op):
        if op == "create":
            H["cm"] = yield from ip.call(H["self"], [], {})
            return None
        cm = H["cm"]
        if op == "enter":
            m = ip.getattr(cm, "__aenter__")
            r = yield from ip.call(m, [], {})
            if ip.side == "impl":
                r = yield from ip.await_(r)
            H["entered"] = True
            return r
        H["exited"] = True
        oc = op.split(":")[1]
        m = ip.getattr(cm, "__aexit__")
        if oc == "none":
            args = [None, None, None]
        else:
            env = ip.env
            if oc not in env.block_exc:
                env.block_exc[oc] = ExcVal(oc, ident=("block", oc), origin="env")
            e = env.block_exc[oc]
            args = [ExcClass(oc), e, Sentinel("traceback")]
        r = yield from ip.call(m, args, {})
        if ip.side == "impl":
            r = yield from ip.await_(r)
        from pyvc.interp import to_bool, mk_bool
        b = to_bool(ip.ctx, r)
        return ("suppress", b if isinstance(b, bool) else mk_bool(b))


def jobs():
    J = []
    def mk(ctx, env):
        f = env.fn("genfunc")
        return dict(iargs=[f], rargs=[f])
    for oc in BLOCK_OUTCOMES:
        J.append(Job(f"contextmanager[{oc}]", ("contextlib", "contextmanager"), ("ref_contextlib", "contextmanager"), mk, kind="protocol",
                     props=("C13",), faults=False, closes=False, release=False,
                     opts={"protocol": CMProtocol(oc), "ret_kinds": {"genfunc": "envgen"}, "direct_calls_ok": True}))
    return J


class ExitStackProtocol:
    """C14: register up to `n` entries of every kind, then unwind / aclose / pop_all, then unwind again"""
    KINDS = ["enter:acm", "enter:scm", "push:acm", "push:scm", "push:fn", "callback"]

    def __init__(self, n, post=2):
        self.n, self.post = n, post

    def available(self, H):
        k = int(H.get("count", "0"))
        if "phase" not in H:
            ops = ["registered"]
            if k < self.n:
                ops += self.KINDS
            return ops
        if int(H.get("posts", "0")) >= self.post:
            return []
        ops = ["leave:none", "leave:raise", "aclose"]
        if "T" not in H:
            ops.append("pop_all")
        else:
            ops.append("leaveT:none")
        return ops

    def perform(self, ip, H, op):
        env = ip.env
        S = H["self"]
        impl = ip.side == "impl"

        def call(obj, name, args, kwargs=None, is_async=True):
            m = ip.getattr(obj, name)
            r = yield from ip.call(m, list(args), dict(kwargs or {}))
            if impl and is_async:
                r = yield from ip.await_(r)
            return r
        if op == "registered":
            H["phase"] = "unwind"
            return None
        if "phase" not in H:
            k = int(H.get("count", "0")) + 1
            H["count"] = str(k)
            if op.startswith("enter:"):
                cm = env.cm(f"cm{k}", "async" if op.endswith("acm") else "sync")
                return (yield from call(S, "enter_context", [cm]))
            if op.startswith("push:"):
                if op.endswith("fn"):
                    x = env.fn(f"exit{k}")
                else:
                    x = env.cm(f"cm{k}", "async" if op.endswith("acm") else "sync")
                yield from call(S, "push", [x], is_async=False)
                return None
            cb = env.fn(f"cb{k}")
            yield from call(S, "callback", [cb, env.val(f"arg{k}")], is_async=False)
            return None
        H["posts"] = str(int(H.get("posts", "0")) + 1)
        from pyvc.interp import to_bool, mk_bool, TB
        if op == "pop_all":
            H["T"] = yield from call(S, "pop_all", [], is_async=False)
            return None
        if op == "aclose":
            yield from call(S, "aclose", [])
            return None
        target = H["T"] if op.startswith("leaveT") else S
        if op.endswith("none"):
            args = [None, None, None]
        else:
            if "block" not in env.block_exc:
                env.block_exc["block"] = ExcVal("UserBaseError", ident=("block",), origin="env")
            e = env.block_exc["block"]
            args = [ExcClass(e.cls), e, TB]
        r = yield from call(target, "__aexit__", args)
        b = to_bool(ip.ctx, r)
        return ("suppress", b if isinstance(b, bool) else mk_bool(b))


def _es_jobs():
    def mk(ctx, env):
        return dict(iargs=[], rargs=[])
    out = []
    for n, thorough in ((2, False), (3, True)):
        out.append(Job(f"ExitStack[n<={n}]", ("contextlib", "ExitStack"), ("ref_exitstack", "ExitStack"), mk, kind="protocol",
                       props=("C14", "C18"), faults=False, closes=False, release=False, thorough=thorough, max_paths=200000,
                       opts={"protocol": ExitStackProtocol(n), "direct_calls_ok": True, "cm_exit_cancel": True, "budget_s": 1500,
                             "module_overrides": {"contextlib": {}}}))
    return out


_jobs1 = jobs


def jobs():
    return _jobs1() + _es_jobs()


def _deco_jobs():
    O = {"impl_root": "contracts/adapters", "extra_modules": ("decorator_adapters",), "direct_calls_ok": True,
         "ret_kinds": {"genfunc": "envgen", "func": "awaitable"}, "fault_kinds": ("raise", "cancel"),
         "under_contract": [("contextlib", "ContextDecorator"), ("contextlib", "_AsyncGeneratorContextManager"), ("contextlib", "contextmanager")]}
    def mk_gen(ctx, env):
        g, f, a = env.fn("genfunc"), env.fn("func", flavour="corofn"), env.val("arg")
        return dict(iargs=[g, f, a], rargs=[g, f, a])
    def mk_cls(ctx, env):
        cm, f, a = env.cm("cm", "async"), env.fn("func", flavour="corofn"), env.val("arg")
        return dict(iargs=[cm, f, a], rargs=[cm, f, a])
    return [
        Job("decorator[generator manager]", ("decorator_adapters", "decorated_call_generator_manager"), ("ref_contextlib_spec", "decorated_call_generator_manager"),
            mk_gen, kind="coro", props=("C15", "C18"), release=False, opts=O),
        Job("decorator[class manager]", ("decorator_adapters", "decorated_call_class_manager"), ("ref_contextlib_spec", "decorated_call_class_manager"),
            mk_cls, kind="coro", props=("C15", "C18"), release=False, opts=O),
    ]


_jobs2 = jobs


def jobs():
    return _jobs2() + _deco_jobs()


def fingerprint(obj):
    from pyvc.driver import Walker
    w = Walker()
    sh = w.visit(obj, "o", lambda x: None)
    return (sh, tuple(s.get().sexpr() for s in w.slots))


class DecoratorFrameProtocol:
    """C15, non-interference: a decorated call writes no field of the shared manager / decorator object (it only
    touches objects it allocated itself), so concurrent calls cannot interfere through the library"""
    def available(self, H):
        if "decorated" not in H:
            return ["decorate"]
        if int(H.get("calls", "0")) >= 2:
            return []
        return ["call"]

    def perform(self, ip, H, op):
        env = ip.env
        if op == "decorate":
            mgr = yield from ip.call(H["self"], [], {})          # contextmanager(genfunc)(): the shared manager
            H["mgr"] = mgr
            H["decorated"] = yield from ip.call(mgr, [env.fn("func", flavour="corofn")], {})
            return None
        H["calls"] = str(int(H.get("calls", "0")) + 1)
        ip.frame_fp = fingerprint(H["mgr"])
        r = yield from ip.call(H["decorated"], [env.val("arg")], {})
        return (yield from ip.await_(r))

    def expect(self, verifier, op, outcome):
        if op != "call":
            return []
        H = verifier.impl_i.roots
        same = fingerprint(H["mgr"]) == verifier.impl_i.frame_fp
        return [("frame/shared-manager-not-written", same,
                 "the decorated call modified the shared context-manager object (concurrent calls would interfere)")]


def _deco_frame_jobs():
    def mk(ctx, env):
        g = env.fn("genfunc")
        return dict(iargs=[g], rargs=[g])
    return [Job("decorator-frame[generator manager]", ("contextlib", "contextmanager"), None, mk, kind="protocol", props=("C15",),
                faults=True, closes=False, release=False,
                opts={"protocol": DecoratorFrameProtocol(), "direct_calls_ok": True, "ret_kinds": {"genfunc": "envgen", "func": "awaitable"},
                      "under_contract": [("contextlib", "ContextDecorator"), ("contextlib", "_AsyncGeneratorContextManager")]})]


_jobs3 = jobs


def jobs():
    return _jobs3() + _deco_frame_jobs()
