"""Jobs for the class-based iterators: chain, groupby."""
from pyvc.driver import Job
from pyvc.values import *
from .jobs_basic import P_ITER, V, F, I, one_src
from .jobs_multi import n_src, C


def jobs():
    IT, RI = "itertools", "ref_itertools"
    J = []
    def add(name, impl, ref, mk, kind="gen", props=P_ITER, **kw):
        J.append(Job(name, impl, ref, mk, kind=kind, props=props, **kw))
    for n in (0, 1, 2, 3):
        add(f"chain[{n}]", (IT, "chain"), (RI, "chain"), n_src(n))
        if n:
            add(f"chain[{n}]/close-unadvanced", (IT, "chain"), (RI, "chain"), n_src(n), props=("C04",), close_first=True, faults=False)
    def mk_fi(ctx, env):
        s = env.source("a")
        s.item_kind = "source"          # an (async) iterable of (async) iterables
        return dict(iargs=[s], rargs=[s])
    add("chain.from_iterable", (IT, "chain.from_iterable"), (RI, "chain_from_iterable"), mk_fi)
    return J


class GroupByProtocol:
    """C16: any interleaving of advancing the groupby and advancing the current / a stale group handle.
    One stale handle is retained; which one is arbitrary: at every advance of the groupby the consumer either
    retains the handle that just became stale or keeps the older one it already holds (`next(G) keeping the older
    stale handle`), so the retained handle ranges over every earlier group."""
    def available(self, H):
        ops = ["next(G)"]
        if "cur" in H:
            ops.append("next(cur)")
        if "stale" in H:
            ops.append("next(stale)")
            ops.append("next(G) keeping the older stale handle")
        return ops

    def perform(self, ip, H, op):
        if op.startswith("next(G)"):
            r = yield from ip.pull(H["self"])
            key, grp = r
            if "cur" in H and op == "next(G)":
                H["stale"] = H["cur"]
            H["cur"] = grp
            return ("group", key)
        g = H["cur"] if op == "next(cur)" else H["stale"]
        v = yield from ip.pull(g)
        return ("item", v)


def _gb_jobs():
    IT, RI = "itertools", "ref_itertools"
    P = ("C16", "C06")
    out = []
    for keyed in (False, True):
        kw = {"key": F("key")} if keyed else {}
        out.append(Job(f"groupby[key={int(keyed)}]", (IT, "groupby"), (RI, "groupby"), one_src(kw=kw), kind="protocol", props=("C16",),
                       closes=False, release=False, faults=False, opts={"protocol": GroupByProtocol()}))
        out.append(Job(f"groupby[key={int(keyed)},faults]", (IT, "groupby"), (RI, "groupby"), one_src(kw=kw), kind="protocol", props=P,
                       closes=False, release=False, opts={"protocol": GroupByProtocol()}))
    return out


_jobs0 = jobs


def jobs():
    return _jobs0() + _gb_jobs()
