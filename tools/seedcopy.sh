#!/bin/bash
# usage: tools/seedcopy.sh <seeded id> [<prop>]  -- development variant of seedtest.sh that leaves /repo alone:
# exports HEAD of /repo to a scratch copy, applies the seeded change there, runs the check with --repo <copy>
# (evidence/replays redirected to the scratch dir), writes seeded/<id>/result.txt, removes the copy.
id=$1; prop=${2:-${id%%-*}}
w=/root/work/mut/$id
rm -rf $w; mkdir -p $w/repo $w/out
git -C /repo archive HEAD | tar -x -C $w/repo
(cd $w/repo && git init -q . && git apply /verif/seeded/$id/patch.diff) || { echo "$id: patch does not apply" | tee /verif/seeded/$id/result.txt; rm -rf $w; exit 9; }
out=$(cd /verif && PYVC_OUT=$w/out timeout ${SEED_TIMEOUT:-1500} ./check $prop --repo $w/repo 2>&1); code=$?
{ echo "== $prop exit=$code"; echo "$out" | grep -E "VIOLATION|KNOWN|CHECKER-ERROR|bounded-only|undecided" | cut -c1-260;
  python3 -c "
import json,sys,collections
try:
    e=json.load(open('$w/out/evidence/$prop.json'))
    c=collections.Counter(f['status'] for f in e['coverage']['failed_obligations'])
    print('STATUSES of failed obligations:', dict(c))
except Exception as ex:
    print('STATUSES: n/a', ex)
"; } > /verif/seeded/$id/result.txt
echo "$id: $(grep -c VIOLATION /verif/seeded/$id/result.txt) violation lines; $(grep '^==' /verif/seeded/$id/result.txt)"
rm -rf $w
