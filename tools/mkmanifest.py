#!/usr/bin/env python3
"""regenerate MANIFEST.json from contracts/plan.py (claimed checks) + the not_applicable table below"""
import json, sys, os
sys.path.insert(0, os.path.dirname(os.path.dirname(os.path.abspath(__file__))))
from contracts import plan
props = [json.loads(l) for l in open(os.path.join(os.path.dirname(__file__), "..", "properties.jsonl"))]
NOT_YET = "check not built yet (build in progress; see DESIGN.md section 6)"
checks = []
na = []
for p in props:
    pid = p["id"]
    cfg = plan.PROPS.get(pid)
    if cfg is None or cfg.get("unclaimed"):
        na.append({"property_id": pid, "reason": (cfg or {}).get("unclaimed") or NOT_YET})
        continue
    checks.append({
        "property_id": pid,
        "quick_cmd": f"./check {pid} --tier quick",
        "thorough_cmd": f"./check {pid} --tier thorough",
        "evidence_file": f"/verif/evidence/{pid}.json",
        "replay_cmd_template": f"./check {pid} --replay {{path}}",
        "engine": "pyvc",
        "level_claimed": {"category": cfg.get("level", "proof"), "text": cfg["explanation"], "design_ref": cfg.get("design_ref", "DESIGN.md section 3 / " + pid)},
        "level_note": cfg.get("level_note", "trusted: " + "; ".join(cfg.get("trusted_base", []))[:900]),
        "technique": cfg.get("technique", "contract-based deductive verification: VCs generated from the real AST by symbolic execution against reference contracts, loop cut points with inductive (Houdini-inferred) invariants, discharged by z3"),
    })
m = {
    "version": 1,
    "setup_cmd": "python3-vt -c 'import z3' && /venv/bin/python -c 'import sys; sys.path.insert(0,\"/repo\"); import asyncstdlib'",
    "hooks": {"guard": "ASYNCSTDLIB_VERIF", "enable": "no hooks in /repo are needed: every check re-parses /repo/asyncstdlib/*.py with ast on every run; native replays import /repo via PYTHONPATH",
              "baseline_off_cmd": "cd /repo && /venv/bin/python -m pytest -ra -q -p no:cacheprovider --timeout=900", "source_commits": [], "add_only": True},
    "engines": [{"name": "pyvc", "path": "/verif/pyvc", "serves_properties": [c["property_id"] for c in checks],
                 "kind_free_text": "deductive verifier for the Python subset asyncstdlib is written in: AST symbolic interpreter + relational lock-step against reference contracts + cut-point invariants + z3"}],
    "checks": checks,
    "not_applicable": na,
    "notes": "see DESIGN.md; known findings in known_findings.json; seeded changes in seeded/",
}
json.dump(m, open(os.path.join(os.path.dirname(__file__), "..", "MANIFEST.json"), "w"), indent=1)
print(len(checks), "checks;", len(na), "not claimed")
