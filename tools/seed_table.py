#!/usr/bin/env python3
"""regenerate seeded/*/meta.json from result.txt/confirmed.json and print the detection table for DESIGN.md"""
import glob, json, os, re
HERE = os.path.dirname(os.path.abspath(__file__))
WHAT = {
 "C01-1": "heapq._KeyIter.__eq__ built on the direction-aware __lt__: merge(reverse=True) loses stability (ties among distinguishable items)",
 "C01-2": "tee_peer cleanup `if buffer in peers: peers.remove(buffer)` (== on deques): closing a child removes a sibling's equal buffer",
 "C02-1": "max: `invert ^ (item < best)` again - last of equal maxima",
 "C02-2": "sum: `total += item` again - mutates a list start",
 "C03-1": "sum: fast path through builtins.sum for non-async iterables (float summation differs by flavour)",
 "C03-2": "zip(strict=True): eager length check of sized arguments (lists fail early, iterators do not)",
 "C04-1": "tee_peer cleanup `peers.remove(buffer)`: out-of-order close removes the wrong buffer, source never closed",
 "C04-2": "merge: finally closes only iterators still on the heap: leak when fetching the first items fails",
 "C05-1": "islice: `stop = (stop-start-1)//step*step` - stops pulling before the stdlib does (step > 1)",
 "C05-2": "merge: tail of the last iterator drained through pull_head(): key called on items heapq never keys",
 "C06-1": "compress: zip(selectors, data) - a fault of `data` in the round where selectors end is swallowed",
 "C06-2": "min/max: key of the first item computed lazily - a failing key on a single item is swallowed",
 "C07-1": "_aclose_wrapper: early return when the underlying has no asend - athrow stays bound to the underlying after close",
 "C07-2": "_aclose_wrapper: skip closing a wrapper that was never started - a handle closed before first use keeps working",
 "C08-1": "scoped_iter: hasattr(iterable, 'aclose') instead of the iterator - plain iterables get the raw closable generator",
 "C08-2": "_ScopedAsyncIteratorContext.__aexit__: skip aclose when the forwarding generator finished - class-based iterators never closed",
 "C09-1": "tee_peer cleanup `peers.remove(buffer)`: a closed child removes a live sibling's equal buffer",
 "C09-2": "tee_peer: `if buffer: yield buffer.popleft(); continue` inside `async with lock` - lock held across a yield",
 "C10-1": "CachedLRU hit: move_to_end only when the cache is full - wrong eviction victim later",
 "C10-2": "CallKey.from_call typed: `map(type, kwds)` (names) instead of values - typed keyword patterns collapse",
 "C11-1": "CachedLRU: eviction moved before the await, insert without eviction after - overlapping misses exceed maxsize",
 "C11-2": "CachedLRU: misses counted after the await - a cancelled/failed call is never counted",
 "C12-1": "_await_impl re-check `__dict__.get(name, self)`: a deleted attribute counts as `still mine`, unpublished re-run",
 "C12-2": "_get_attribute: pop the attribute on any BaseException - a failing run removes another run's cached value",
 "C13-1": "__aexit__: RuntimeError cause check only for StopAsyncIteration - a StopIteration from the block is misattributed",
 "C13-2": "__aexit__: `except exc_type` clause moved first - swallow-and-stop generators re-raise for StopAsyncIteration/Exception",
 "C14-1": "enter_context: exit registered before entering - a manager whose enter failed is exited",
 "C14-2": "__aexit__: iterate a copy and clear() after the re-raise - a raising exit leaves all exits registered",
 "C15-1": "_recreate_cm stores the fresh generator on self and returns self - concurrent calls share one manager",
 "C15-2": "ContextDecorator inner: hand-expanded with `except Exception` - no exit on cancellation/BaseException",
 "C16-1": "GroupBy.__anext__: previous group no longer disabled up front - a stale group yields a skipped item at the end",
 "C16-2": "GroupBy.__anext__: single step when nothing is buffered - a partly consumed run is split into two groups",
 "C17-1": "_FutureCachedPropertyValue.__await__: hand-unrolled `yield next(steps)` - loop replies/throws are dropped",
 "C17-2": "ScopedIter.__aexit__: `await shield(aclose)` on CancelledError - asyncio imported, user aclose runs in a library task",
 "C18-1": "ExitStack.__aexit__: `except Exception` - cancellation inside an exit aborts the unwinding",
 "C18-2": "map: iterates zip(...) without ScopedIter - cancellation inside the mapped function leaks all sources",
 "C19-1": "any_iter (sync branch): peeks the first item with next(iter(iterable)) - one-shot iterators lose their first item",
 "C19-2": "await_each: finally awaits the remaining awaitables - awaits nobody asked for after close/failure",
 "C20-1": "tee_peer cleanup rebinding `peers = [...]` - a closed child's buffer keeps growing, source never closed",
 "C20-2": "tee_peer: append methods of all buffers cached at first step - items appended to a closed child's buffer for ever",
}
rows = []
for d in sorted(glob.glob(os.path.join(HERE, "..", "seeded", "*", ""))):
    sid = os.path.basename(d.rstrip("/"))
    prop = sid.split("-")[0]
    res = open(d + "result.txt").read() if os.path.exists(d + "result.txt") else ""
    viol = [l for l in res.splitlines() if l.startswith("VIOLATION")]
    ex = re.search(r"exit=(\d+)", res)
    conf = json.load(open(d + "confirmed.json")) if os.path.exists(d + "confirmed.json") else {}
    patch = open(d + "patch.diff").read()
    files = sorted(set(re.findall(r"^\+\+\+ b/(\S+)", patch, re.M)))
    obl = sorted(set(re.sub(r".*obligation=", "", v).split(" no-failing")[0][:110] for v in viol))[:2]
    replayed = any("no-failing-input-found" not in v for v in viol)
    meta = {"id": sid, "breaks_property": prop, "what": WHAT.get(sid, ""), "files_changed": files,
            "origin": "independent sub-agent given only the property text and a scratch worktree of /repo",
            "needs_to_manifest": "see notes.md", "confirmed_here": conf,
            "ran": f"tools/seedtest.sh /verif/seeded/{sid}/patch.diff {prop}   (git -C /repo apply; ./check {prop}; git -C /repo checkout -- .)",
            "check_exit": int(ex.group(1)) if ex else None, "detected": bool(viol), "failed_obligations": obl,
            "counterexample_replayed_natively": replayed}
    json.dump(meta, open(d + "meta.json", "w"), indent=1)
    rows.append(meta)
print("| id | change | caught by | replayed |")
print("|---|---|---|---|")
for m in rows:
    by = "; ".join("`%s`" % o for o in m["failed_obligations"]) if m["detected"] else "**not caught**"
    print(f"| {m['id']} | {m['what']} | {by} | {'yes' if m['counterexample_replayed_natively'] else ('-' if not m['detected'] else 'no')} |")
print()
print(f"Caught: {sum(1 for m in rows if m['detected'])} of {len(rows)}.")
