#!/usr/bin/env python3
"""regenerate seeded/*/meta.json from result.txt/confirmed.json and print the detection table for DESIGN.md"""
import glob, json, os, re
HERE = os.path.dirname(os.path.abspath(__file__))
WHAT = {
 "C01-1": "heapq._KeyIter.__eq__ built on the direction-aware __lt__: merge(reverse=True) loses stability (ties among distinguishable items)",
 "C01-2": "tee_peer cleanup `if buffer in peers: peers.remove(buffer)` (== on deques): closing a child removes a sibling's equal buffer",
 "C02-1": "max: `invert ^ (item < best)` again - last of equal maxima",
 "C02-2": "sum: `total += item` again - mutates a list start",
 "C03-1": "sum: fast path through builtins.sum for non-async iterables (float summation differs by flavour)",
 "C03-2": "zip(strict=True): eager length check of sized arguments (lists fail early, iterators do not)",
 "C04-1": "tee_peer cleanup `peers.remove(buffer)`: out-of-order close removes the wrong buffer, source never closed",
 "C04-2": "merge: finally closes only iterators still on the heap: leak when fetching the first items fails",
 "C05-1": "islice: `stop = (stop-start-1)//step*step` - stops pulling before the stdlib does (step > 1)",
 "C05-2": "merge: tail of the last iterator drained through pull_head(): key called on items heapq never keys",
 "C06-1": "compress: zip(selectors, data) - a fault of `data` in the round where selectors end is swallowed",
 "C06-2": "min/max: key of the first item computed lazily - a failing key on a single item is swallowed",
 "C07-1": "_aclose_wrapper: early return when the underlying has no asend - athrow stays bound to the underlying after close",
 "C07-2": "_aclose_wrapper: skip closing a wrapper that was never started - a handle closed before first use keeps working",
 "C08-1": "scoped_iter: hasattr(iterable, 'aclose') instead of the iterator - plain iterables get the raw closable generator",
 "C08-2": "_ScopedAsyncIteratorContext.__aexit__: skip aclose when the forwarding generator finished - class-based iterators never closed",
 "C09-1": "tee_peer cleanup `peers.remove(buffer)`: a closed child removes a live sibling's equal buffer",
 "C09-2": "tee_peer: `if buffer: yield buffer.popleft(); continue` inside `async with lock` - lock held across a yield",
 "C10-1": "CachedLRU hit: move_to_end only when the cache is full - wrong eviction victim later",
 "C10-2": "CallKey.from_call typed: `map(type, kwds)` (names) instead of values - typed keyword patterns collapse",
 "C11-1": "CachedLRU: eviction moved before the await, insert without eviction after - overlapping misses exceed maxsize",
 "C11-2": "CachedLRU: misses counted after the await - a cancelled/failed call is never counted",
 "C12-1": "_await_impl re-check `__dict__.get(name, self)`: a deleted attribute counts as `still mine`, unpublished re-run",
 "C12-2": "_get_attribute: pop the attribute on any BaseException - a failing run removes another run's cached value",
 "C13-1": "__aexit__: RuntimeError cause check only for StopAsyncIteration - a StopIteration from the block is misattributed",
 "C13-2": "__aexit__: `except exc_type` clause moved first - swallow-and-stop generators re-raise for StopAsyncIteration/Exception",
 "C14-1": "enter_context: exit registered before entering - a manager whose enter failed is exited",
 "C14-2": "__aexit__: iterate a copy and clear() after the re-raise - a raising exit leaves all exits registered",
 "C15-1": "_recreate_cm stores the fresh generator on self and returns self - concurrent calls share one manager",
 "C15-2": "ContextDecorator inner: hand-expanded with `except Exception` - no exit on cancellation/BaseException",
 "C16-1": "GroupBy.__anext__: previous group no longer disabled up front - a stale group yields a skipped item at the end",
 "C16-2": "GroupBy.__anext__: single step when nothing is buffered - a partly consumed run is split into two groups",
 "C17-1": "_FutureCachedPropertyValue.__await__: hand-unrolled `yield next(steps)` - loop replies/throws are dropped",
 "C17-2": "ScopedIter.__aexit__: `await shield(aclose)` on CancelledError - asyncio imported, user aclose runs in a library task",
 "C18-1": "ExitStack.__aexit__: `except Exception` - cancellation inside an exit aborts the unwinding",
 "C18-2": "map: iterates zip(...) without ScopedIter - cancellation inside the mapped function leaks all sources",
 "C19-1": "any_iter (sync branch): peeks the first item with next(iter(iterable)) - one-shot iterators lose their first item",
 "C19-2": "await_each: finally awaits the remaining awaitables - awaits nobody asked for after close/failure",
 "C20-1": "tee_peer cleanup rebinding `peers = [...]` - a closed child's buffer keeps growing, source never closed",
 "C20-2": "tee_peer: append methods of all buffers cached at first step - items appended to a closed child's buffer for ever",
 "C01-3": "zip(strict=True): `anext(it, None) is not None` as exhaustion test - a surplus item None ends the zip silently",
 "C01-4": "accumulate default `add`: `x += y; return x` - totals are mutated in place (lists alias, earlier results change)",
 "C02-3": "sorted(key=..., reverse=True): sort ascending then list.reverse() - equal elements come out in reversed order",
 "C02-4": "heapq.ReverseLT.__eq__ removed - tuple comparison never reaches the index tie-breaker in nsmallest",
 "C04-3": "accumulate(initial=...): initial yielded before entering ScopedIter - close after the first item leaks the source",
 "C04-4": "chain.__anext__: `except Exception` - a BaseException/cancellation leaves the not-yet-reached iterables open",
 "C05-3": "zip_longest: exhausted sources stay in the list and are re-pulled on every later row (only visible on re-polls, A5)",
 "C05-4": "dropwhile: single loop `if await predicate(item) and dropping` - predicate still called after it first failed",
 "C06-3": "batched: `except Exception: yield partial batch; raise` - failure deferred behind an extra short batch",
 "C06-4": "GroupBy.__anext__: scan loop moved under `except AttributeError` - an AttributeError of source/key is swallowed",
 "C09-3": "tee_peer: item published to the buffers after leaving `async with lock` - reordering/loss when the release suspends",
 "C09-4": "tee_peer: lock acquired inside the try whose finally releases it - a consumer cancelled while waiting releases a sibling's lock",
 "C10-3": "CachedLRU: `full` flag not reset by cache_discard - eviction although there is room",
 "C10-4": "MemoizedLRU: miss counted only when a result is stored - failing calls are not counted as misses",
 "C12-3": "placeholder keeps its own produced value (`_done` fast path) - a retained placeholder serves a deleted value",
 "C12-4": "_get_attribute stores awaitable results unwrapped - later awaits await the value instead of returning it",
 "C14-3": "ExitStack.__aexit__: pending_exc not cleared on suppression - a suppressed replacement exception is re-raised",
 "C14-4": "ExitStack.callback: sync callbacks registered through awaitify(lambda) - a truthy return value suppresses",
 "C16-3": "_Grouper staleness judged by key (`target_key != self._target_key`) - an old handle revives when its key recurs",
 "C16-4": "_GroupByState.target_key defaults to None / `is not None` test - a None key breaks the run scan",
 "C03-3": "scoped_iter: `hasattr(iterable, 'aclose')` asked of the argument - sync iterables get the raw, closable internal iterator",
 "C03-4": "LRUAsyncCallable.__get__: bind only what has `__get__` - cached partial/callable-object flavours are not bound as methods",
 "C07-3": "_BorrowedAsyncIterator: asend/athrow rebinding moved from _aclose_wrapper into aclose - a scope-ended handle still reaches the underlying iterator",
 "C07-4": "borrow(): re-borrowing unwraps to `iterator.__wrapped__` - the second handle outlives the first",
 "C08-3": "_ScopedAsyncIteratorContext.__aexit__: closes `_wrapper` directly instead of `_aclose_wrapper()` - asend on the dead handle still yields",
 "C08-4": "_ScopedAsyncIteratorContext.__aexit__: underlying aclose before the handle is ended - a failing/cancelled aclose leaves the handle alive",
 "C11-3": "MemoizedLRU: a duplicate overlapping miss is re-counted as a hit - misses != invocations (negative after cache_clear)",
 "C11-4": "CachedLRU: `full` flag not reset by cache_discard - popitem on an empty store when a miss completes",
 "C13-3": "__aexit__: `return not isinstance(exc_val, StopAsyncIteration)` - a swallowed StopAsyncIteration of the block propagates",
 "C13-4": "__aexit__: every non-Exception BaseException closes the generator instead of being thrown into it",
 "C15-3": "ContextDecorator inner: `result = await func(...)` inside, `return result` after the block - UnboundLocalError when the context suppresses",
 "C15-4": "_recreate_cm returns self while the stored generator `has a frame and is not running` - a call overlapping the first call's body shares its generator",
 "C17-3": "sorted: more than 16384 items are sorted through loop.run_in_executor - asyncio-only, suspends on a library Future",
 "C17-4": "anext(it, default): hand-written `yield next(pending)` stepping - loop replies and thrown exceptions are dropped",
 "C18-3": "merge: finally closes only iterators on the heap - cancellation while the first items are fetched leaks the later sources",
 "C18-4": "accumulate: first value fetched before entering ScopedIter - cancellation during that fetch leaves a class-based source open",
 "C19-3": "sync: `try: return await result / except TypeError: return result` - a TypeError of the awaited body is swallowed",
 "C19-4": "apply: positional awaitables resolved with `pending.pop()` - arguments arrive reversed",
 "C20-3": "_largest: items tying with the worst kept key are pushed instead of discarded - the heap grows with the stream",
 "C20-4": "chain._chain_iterator: sub-iterators collected in a list and closed together at the end - exhausted sub-iterators stay alive",
}
rows = []
for d in sorted(glob.glob(os.path.join(HERE, "..", "seeded", "*", ""))):
    sid = os.path.basename(d.rstrip("/"))
    prop = sid.split("-")[0]
    res = open(d + "result.txt").read() if os.path.exists(d + "result.txt") else ""
    viol = [l for l in res.splitlines() if l.startswith("VIOLATION")]
    ex = re.search(r"exit=(\d+)", res)
    conf = json.load(open(d + "confirmed.json")) if os.path.exists(d + "confirmed.json") else {}
    patch = open(d + "patch.diff").read()
    files = sorted(set(re.findall(r"^\+\+\+ b/(\S+)", patch, re.M)))
    obl = sorted(set(re.sub(r".*obligation=", "", v).split(" no-failing")[0][:110] for v in viol))[:2]
    replayed = any("no-failing-input-found" not in v for v in viol)
    meta = {"id": sid, "breaks_property": prop, "what": WHAT.get(sid, ""), "files_changed": files,
            "origin": "independent sub-agent given only the property text and a scratch worktree of /repo",
            "needs_to_manifest": "see notes.md", "confirmed_here": conf,
            "ran": f"tools/seedcopy.sh {sid}   (git archive of /repo HEAD into a scratch copy; git apply patch.diff there; ./check {prop} --repo <copy>; copy removed) "
                   f"- same check as tools/seedtest.sh, which applies the patch to /repo itself and reverts it",
            "check_exit": int(ex.group(1)) if ex else None, "detected": bool(viol), "failed_obligations": obl,
            "counterexample_replayed_natively": replayed}
    json.dump(meta, open(d + "meta.json", "w"), indent=1)
    rows.append(meta)
print("| id | change | caught by | replayed |")
print("|---|---|---|---|")
for m in rows:
    by = "; ".join("`%s`" % o for o in m["failed_obligations"]) if m["detected"] else "**not caught**"
    print(f"| {m['id']} | {m['what']} | {by} | {'yes' if m['counterexample_replayed_natively'] else ('-' if not m['detected'] else 'no')} |")
print()
print(f"Caught: {sum(1 for m in rows if m['detected'])} of {len(rows)}.")
