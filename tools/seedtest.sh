#!/bin/bash
# usage: tools/seedtest.sh <patch.diff> <prop> [<prop>...]   -- apply a seeded change to /repo, run checks, undo
patch=$1; shift
git -C /repo apply "$patch" || exit 9
for p in "$@"; do
  out=$(cd /verif && ./check $p 2>&1); code=$?
  echo "== $p exit=$code"; echo "$out" | grep -E "VIOLATION|KNOWN|CHECKER-ERROR|bounded-only" | cut -c1-260
done
git -C /repo checkout -- .
