#!/bin/bash
# usage: tools/seedtest.sh <patch.diff> <prop> [<prop>...]   -- apply a seeded change to /repo, run checks, undo
patch=$1; shift
if [ -n "$(git -C /repo status --porcelain)" ]; then echo "/repo is dirty - refusing"; exit 8; fi
trap 'git -C /repo checkout -- .' EXIT
git -C /repo apply "$patch" || exit 9
for p in "$@"; do
  out=$(cd /verif && ./check $p 2>&1); code=$?
  echo "== $p exit=$code"; echo "$out" | grep -E "VIOLATION|KNOWN|CHECKER-ERROR|bounded-only" | cut -c1-260
done
