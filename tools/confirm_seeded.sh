#!/bin/bash
# confirm every seeded change in a scratch worktree: applies, test-suite passes with it, demo fails with / passes without
cd /verif
for d in seeded/*/; do
  id=$(basename $d)
  if [ -n "$1" ] && [[ "$id" != $1* ]]; then continue; fi
  wt=/tmp/confirm_$id
  git -C /repo worktree add -q --detach $wt HEAD || continue
  (
    cd $wt
    PYTHONPATH=$wt /venv/bin/python /verif/$d/demo.py > /tmp/confirm_$id.without 2>&1; w=$?
    if git apply /verif/$d/patch.diff 2>/dev/null; then applies=true; else applies=false; fi
    tests=$(PYTHONPATH=$wt /venv/bin/python -m pytest -q -p no:cacheprovider unittests 2>&1 | tail -1)
    PYTHONPATH=$wt /venv/bin/python /verif/$d/demo.py > /tmp/confirm_$id.with 2>&1; x=$?
    echo "{\"id\": \"$id\", \"applies\": $applies, \"tests_with_patch\": \"$tests\", \"demo_exit_without_patch\": $w, \"demo_exit_with_patch\": $x}" > /verif/$d/confirmed.json
    echo "$id applies=$applies tests='$tests' demo without=$w with=$x"
  )
  git -C /repo worktree remove --force $wt
  rm -f /tmp/confirm_$id.with /tmp/confirm_$id.without
done
git -C /repo worktree prune
