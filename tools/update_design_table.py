#!/usr/bin/env python3
"""replace the detection table of DESIGN.md section 11 by the output of tools/seed_table.py"""
import os, re, subprocess, sys
HERE = os.path.dirname(os.path.abspath(__file__))
out = subprocess.run([sys.executable, os.path.join(HERE, "seed_table.py")], capture_output=True, text=True, check=True).stdout.strip()
p = os.path.join(HERE, "..", "DESIGN.md")
s = open(p).read()
i = s.index("| id | change | caught by | replayed |")
j = re.search(r"Caught: \d+ of \d+\.", s[i:]).end() + i
s = s[:i] + out + s[j:]
open(p, "w").write(s)
print(out.splitlines()[-1])
