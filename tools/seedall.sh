#!/bin/bash
# run every seeded change against the check of the property it breaks; writes seeded/<id>/result.txt
cd /verif
for d in seeded/*/; do
  id=$(basename $d); prop=${id%%-*}
  if [ -n "$1" ] && [[ "$id" != $1* ]]; then continue; fi
  if ! git -C /repo apply --check /verif/$d/patch.diff 2>/dev/null; then echo "$id: patch does not apply" | tee $d/result.txt; continue; fi
  out=$(timeout 1500 tools/seedtest.sh /verif/$d/patch.diff $prop 2>&1)
  echo "$out" > $d/result.txt
  echo "$id: $(echo "$out" | grep -c VIOLATION) violation lines; $(echo "$out" | grep '^==')"
done
