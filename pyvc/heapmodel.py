"""heapq operations used by the library: the pure-Python bodies of the installed CPython's Lib/heapq.py are
interpreted (no transcription, no trust beyond `the C accelerator implements the same algorithm`)."""
from .values import *


def heap_op(interp, name, args, site):
    prog = interp.frames[-1].fn.module.program if interp.frames else None
    mod = prog.module("stdlib:heapq")
    fn = mod.lookup(name)
    return (yield from interp.call(fn, args, {}, site))
