"""Snapshots of the state at the consumer loop of a protocol job (no interpreter frame is live there): each
operation is then explored from a copy of the generic (havocked) state of a cut point, without re-executing the
history that led to it."""
from .values import *
from .interp import ClassVal, GenObj, NativeIter, AwaitifyWrapped, InstanceDict, Slice3
from .odmodel import ODict

SHARED = (type(None), bool, int, str, float, Opaque, SInt, SBool, Sentinel, ClassVal, Closure, Builtin, UserFn, ExcVal, ExcClass,
          StaticMethod, ClassMethod, Property, AwaitifyWrapped, Slice3)


def clone(v, memo):
    if isinstance(v, SHARED):
        return v
    k = id(v)
    if k in memo:
        return memo[k]
    if isinstance(v, tuple):
        r = tuple(clone(x, memo) for x in v)
        memo[k] = r
        return r
    if isinstance(v, Obj):
        r = Obj(v.cls)
        memo[k] = r
        r.f = {a: clone(b, memo) for a, b in v.f.items()}
        if hasattr(v, "tag"):
            r.tag = v.tag
        return r
    if isinstance(v, dict):
        r = type(v)()
        memo[k] = r
        for a, b in v.items():
            dict.__setitem__(r, clone(a, memo), clone(b, memo))
        return r
    if isinstance(v, list):
        r = []
        memo[k] = r
        r.extend(clone(x, memo) for x in v)
        return r
    if isinstance(v, SList):
        r = object.__new__(type(v))
        memo[k] = r
        r.__dict__.update(v.__dict__)
        if v.items is not None:
            r.items = [clone(x, memo) for x in v.items]
        if hasattr(v, "cols"):
            r.cols = list(v.cols)
        return r
    if isinstance(v, (Source, UserCM, EnvGen)):
        r = object.__new__(type(v))
        memo[k] = r
        r.__dict__.update(v.__dict__)
        return r
    if isinstance(v, BoundMethod):
        r = BoundMethod(clone(v.obj, memo), v.fn)
        memo[k] = r
        return r
    if isinstance(v, Partial):
        r = Partial(clone(v.fn, memo), clone(v.args, memo), clone(v.kwargs, memo))
        memo[k] = r
        return r
    if isinstance(v, InstanceDict):
        r = InstanceDict(clone(v.obj, memo))
        memo[k] = r
        return r
    if isinstance(v, (UserAwaitable, EnvAwaitable)):
        r = object.__new__(type(v))
        memo[k] = r
        r.__dict__.update({a: clone(b, memo) for a, b in v.__dict__.items()})
        return r
    if isinstance(v, STuple):
        return v
    if isinstance(v, set):
        r = set(v)
        memo[k] = r
        return r
    raise Unsupported(f"snapshot of {type(v).__name__} (a live generator or iterator is part of the state)")


class Snapshot:
    def __init__(self, env, himpl, href, ctx, trace):
        memo = {}
        self.env_fields = {k: clone(v, memo) for k, v in env.__dict__.items() if k not in ("ctx", "trace")}
        self.himpl = clone(himpl, memo)
        self.href = clone(href, memo)
        self.pc = list(ctx.pc)
        self.n = ctx.n
        self.val_syms = list(ctx.val_syms)
        self.eq_seen = set(ctx.eq_seen)
        self.lt_terms = dict(ctx.lt_terms)
        self.trace = list(trace)

    def restore(self, env, ctx):
        memo = {}
        for k, v in self.env_fields.items():
            setattr(env, k, clone(v, memo))
        himpl = clone(self.himpl, memo)
        href = clone(self.href, memo)
        env.trace = list(self.trace)
        ctx.n = self.n
        ctx.val_syms = list(self.val_syms)
        ctx.eq_seen = set(self.eq_seen)
        ctx.lt_terms = dict(self.lt_terms)
        for f in self.pc:
            ctx.assume(f)
        return himpl, href
