"""PyVC interpreter: symbolic execution of the real asyncstdlib AST (and of the sync reference
functions) as host-Python generators.  Interpreting a statement *yields* events (values.Ev) to the
driver and receives the environment's answer.  See DESIGN.md sections 2.1-2.4."""
import ast
import os
import z3
from .values import *

LIB_SENTINEL_CTOR = "Sentinel"


# =====================================================================================
# path context
# =====================================================================================
class Ctx:
    # PYVC_SOLVER_SCALE multiplies every solver time limit (the checker re-runs a job with a larger scale before it
    # accepts that an obligation stays `unknown`)
    SCALE = float(__import__("os").environ.get("PYVC_SOLVER_SCALE", "1") or 1)

    def __init__(self, decisions, timeout_ms=20000):
        timeout_ms = int(timeout_ms * self.SCALE)
        self.solver = z3.Solver()
        self.solver.set("timeout", timeout_ms)
        self.pc = []
        self.decisions = list(decisions)
        self.di = 0
        self.pending = []       # alternative decision prefixes
        self.n = 0
        self.evseq = 0          # number of environment events so far (adjacency of Call/await)
        self.labels = []        # human-readable decision labels
        self.solver_s = 0.0
        self.queries = 0
        self.eq_seen = set()
        self.lt_terms = {}
        self.havocked = False
        self.fresh_mode = False
        self.eq_is_incomparable = False
        self.val_syms = []
        self.awaits = []

    def fresh(self, sort, hint="v"):
        self.n += 1
        c = z3.Const(f"{hint}!{self.n}", sort)
        if sort == Val:
            self.val_syms.append(c)
        return c

    def assume(self, f):
        self.pc.append(f)
        self.solver.add(f)

    def check(self, *fs):
        import time
        t = time.time()
        if self.fresh_mode:
            # sequence-heavy jobs: z3's incremental solver degrades badly on the seq theory; a fresh solver per
            # query decides the same formulas in milliseconds
            s = z3.Solver()
            s.set("timeout", int(10000 * self.SCALE))
            s.add(self.solver.assertions())
            s.add(*fs)
            r = s.check()
            if r == z3.sat:
                self._last_model = s.model()
        else:
            r = self.solver.check(*fs)
        self.solver_s += time.time() - t
        self.queries += 1
        return r

    def model(self):
        return self._last_model if self.fresh_mode else self.solver.model()

    def choose(self, n, label=""):
        """n-way nondeterministic choice (environment answer or undecided branch).  Decisions are replayed
        by position; the label guards against a replay that diverges because the assumed invariants changed
        in the meantime (Houdini): such a prefix is abandoned (Diverged) and re-explored in the next round."""
        if self.di < len(self.decisions):
            lab, c = self.decisions[self.di]
            if lab != label or c >= n:
                raise Diverged(f"{lab} vs {label}")
        else:
            c = 0
            for alt in range(1, n):
                self.pending.append(self.decisions[: self.di] + [(label, alt)])
            self.decisions.append((label, 0))
        self.di += 1
        self.labels.append((label, c))
        return c

    def branch(self, cond):
        """decide a z3 Bool on this path"""
        if isinstance(cond, bool):
            return cond
        cond = z3.simplify(cond)
        if z3.is_true(cond):
            return True
        if z3.is_false(cond):
            return False
        rt = self.check(cond)
        if rt == z3.unknown:
            rt = self.recheck(cond)
        rf = self.check(z3.Not(cond))
        if rf == z3.unknown:
            rf = self.recheck(z3.Not(cond))
        can_t = rt == z3.sat
        can_f = rf == z3.sat
        if can_t and not can_f:
            return True
        if can_f and not can_t:
            return False
        if not can_t and not can_f:
            raise Infeasible()
        c = self.choose(2, "branch:" + str(hash(cond.sexpr())))
        if c == 0:
            self.assume(cond)
            return True
        self.assume(z3.Not(cond))
        return False

    def valid(self, f):
        """is f implied by the path condition?  -> (bool, z3 result).  z3 is asked first; a query it leaves
        `unknown` (sequence theory) is handed to /usr/bin/cvc5 --strings-exp as SMT-LIB text (second back end)"""
        r = self.check(z3.Not(f))
        if r == z3.unknown:
            r = self.recheck(z3.Not(f))
        return r == z3.unsat, r

    def recheck(self, extra):
        """second opinions on a query the incremental solver left unknown: a fresh (non-incremental) z3, then cvc5"""
        import time
        t = time.time()
        s = z3.Solver()
        s.set("timeout", int(10000 * self.SCALE))
        s.add(self.solver.assertions())
        s.add(extra)
        r = s.check()
        self.solver_s += time.time() - t
        self.fresh_z3 = getattr(self, "fresh_z3", 0) + 1
        if r == z3.unknown:
            r2 = self.cvc5_check(extra)
            if r2 is not None:
                r = r2
        return r

    def cvc5_check(self, extra):
        import subprocess, tempfile, os
        s = z3.Solver()
        s.add(self.solver.assertions())
        s.add(extra)
        text = s.to_smt2()
        dump = os.environ.get("PYVC_DUMP")
        if dump:
            self.__class__.dump_n = getattr(self.__class__, "dump_n", 0) + 1
            open(os.path.join(dump, f"q{self.__class__.dump_n}.smt2"), "w").write(text)
        try:
            with tempfile.NamedTemporaryFile("w", suffix=".smt2", delete=False) as fh:
                # z3 prints in-bounds element access as seq.nth_i; cvc5 knows seq.nth (out-of-bounds value unspecified:
                # unsat for every interpretation implies unsat for z3's)
                fh.write("(set-logic ALL)\n" + text.replace("seq.nth_i", "seq.nth"))
                path = fh.name
            p = subprocess.run(["/usr/bin/cvc5", "--strings-exp", f"--tlimit={int(20000 * self.SCALE)}", path], capture_output=True, text=True,
                               timeout=int(30 * self.SCALE))
            os.unlink(path)
        except Exception:
            return None
        out = p.stdout.strip().splitlines()
        self.cvc5_queries = getattr(self, "cvc5_queries", 0) + 1
        if out and out[0] == "unsat":
            self.cvc5_unsat = getattr(self, "cvc5_unsat", 0) + 1
            return z3.unsat
        if out and out[0] == "sat":
            return z3.sat
        return None

    def mk_lt(self, a, b):
        """lt(a,b) for user `<`: A7 - a strict weak order; asymmetry, irreflexivity and transitivity are supplied as
        ground instances over the terms that are actually compared on this path"""
        t = lt(a, b)
        for x in (a, b):
            k = x.sexpr()
            if k not in self.lt_terms:
                old = list(self.lt_terms.values())
                self.lt_terms[k] = x
                self.assume(z3.Not(lt(x, x)))
                for y in old:
                    self.assume(z3.Not(z3.And(lt(x, y), lt(y, x))))
                if len(old) <= 7:
                    allt = old + [x]
                    for p in allt:
                        for q in allt:
                            for r in allt:
                                if x is p or x is q or x is r:
                                    if not (p is q or q is r or p is r):
                                        self.assume(z3.Implies(z3.And(lt(p, q), lt(q, r)), lt(p, r)))
                                        # incomparability is transitive as well (strict weak order)
                                        self.assume(z3.Implies(z3.And(z3.Not(lt(p, q)), z3.Not(lt(q, p)), z3.Not(lt(q, r)), z3.Not(lt(r, q))),
                                                               z3.And(z3.Not(lt(p, r)), z3.Not(lt(r, p)))))
        return t

    def mk_eq(self, a, b):
        """eq(a,b) for user `==`: symmetric by construction, reflexive via instantiated axiom (A7)"""
        if a.sexpr() > b.sexpr():
            a, b = b, a
        t = eq(a, b)
        k = (a.sexpr(), b.sexpr())
        if k not in self.eq_seen:
            self.eq_seen.add(k)
            # A7, ground instances: reflexive on identical objects, symmetric
            self.assume(z3.Implies(a == b, t))
            self.assume(t == eq(b, a))
            if self.eq_is_incomparable:
                # A7 for the sorted-input tools: `==` agrees with `<`-incomparability (total preorder)
                self.assume(t == z3.And(z3.Not(lt(a, b)), z3.Not(lt(b, a))))
        return t


# =====================================================================================
# helpers on values
# =====================================================================================
def to_bool(ctx, v):
    """python truthiness -> z3 Bool or python bool"""
    if isinstance(v, bool):
        return v
    if v is None:
        return False
    if isinstance(v, SBool):
        return v.t
    if isinstance(v, Opaque):
        return truthy(v.t)
    if isinstance(v, int):
        return v != 0
    if isinstance(v, str):
        return len(v) > 0
    if isinstance(v, SInt):
        return v.t != 0
    if isinstance(v, (list, tuple, dict)):
        return len(v) > 0
    if isinstance(v, SList):
        if v.seq is None:
            return len(v.items) > 0
        return z3.Length(v.seq) > 0
    if isinstance(v, STuple):
        return z3.Length(v.seq) > 0
    if isinstance(v, Obj):
        ln = v.cls.lookup("__len__") if v.cls else None
        if ln is not None:
            raise Unsupported("truthiness via __len__")
        return True
    if isinstance(v, (Sentinel, Source, UserFn, Closure, ClassVal, GenObj, Builtin, BoundMethod, UserCM,
                      Partial, ExcVal, ExcClass, AwaitifyWrapped, NativeIter, EnvGen)):
        return True
    raise Unsupported(f"truthiness of {v!r}")


def as_int(v):
    if isinstance(v, bool):
        return z3.IntVal(int(v))
    if isinstance(v, int):
        return z3.IntVal(v)
    if isinstance(v, SInt):
        return v.t
    if isinstance(v, SBool):
        return z3.If(v.t, z3.IntVal(1), z3.IntVal(0))
    raise Unsupported(f"as_int {v!r}")


def mk_int(t):
    t = z3.simplify(t)
    if z3.is_int_value(t):
        return t.as_long()
    return SInt(t)


def mk_bool(t):
    if isinstance(t, bool):
        return t
    t = z3.simplify(t)
    if z3.is_true(t):
        return True
    if z3.is_false(t):
        return False
    return SBool(t)


def identical(a, b):
    """`a is b` -> z3 Bool / python bool"""
    if isinstance(a, Opaque) and isinstance(b, Opaque):
        return a.t == b.t
    if isinstance(a, Opaque) or isinstance(b, Opaque):
        o, other = (a, b) if isinstance(a, Opaque) else (b, a)
        if other is None:
            return o.t == NONE
        # A8: user objects are never library-private objects / sentinels
        return False
    if isinstance(a, ExcClass) and isinstance(b, ExcClass):
        return a.name == b.name
    if isinstance(a, (SInt, SBool)) or isinstance(b, (SInt, SBool)):
        other = b if isinstance(a, (SInt, SBool)) else a
        if other is None or isinstance(other, (Sentinel, Obj, str, tuple, SList)):
            return False
        raise Unsupported("identity of symbolic scalars")
    if isinstance(a, (int, str, bool, tuple)) and not isinstance(a, bool) and type(a) is type(b):
        return a == b if not isinstance(a, tuple) else a is b
    return a is b


def seq_len(s):
    return z3.Length(s)


def is_userval(v):
    return isinstance(v, Opaque)


# =====================================================================================
# modules, classes
# =====================================================================================
class ClassVal:
    def __init__(self, node, module, bases=(), name=None):
        self.node, self.module, self.bases = node, module, list(bases)
        self.name = name or (node.name if node is not None else "?")
        self.attrs = {}
        self.slots = None
        if node is not None:
            self._load()

    def _load(self):
        for n in self.node.body:
            if isinstance(n, (ast.FunctionDef, ast.AsyncFunctionDef)):
                decos = [d.id if isinstance(d, ast.Name) else (d.attr if isinstance(d, ast.Attribute) else None)
                         for d in n.decorator_list]
                if "overload" in decos:
                    continue
                fn = Closure(n, self.module, env=None, cls=self)
                if "staticmethod" in decos:
                    self.attrs[n.name] = StaticMethod(fn)
                elif "classmethod" in decos:
                    self.attrs[n.name] = ClassMethod(fn)
                elif "property" in decos:
                    self.attrs[n.name] = Property(fn)
                else:
                    self.attrs[n.name] = fn
            elif isinstance(n, ast.Assign) and len(n.targets) == 1 and isinstance(n.targets[0], ast.Name):
                nm = n.targets[0].id
                if nm == "__slots__":
                    try:
                        v = ast.literal_eval(n.value)
                        self.slots = (v,) if isinstance(v, str) else tuple(v)
                    except Exception:
                        self.slots = None
                elif isinstance(n.value, ast.Constant):
                    self.attrs[nm] = n.value.value
                elif isinstance(n.value, ast.Call):
                    # class-level marker objects such as `_sentinel = cast(T_co, object())`
                    self.attrs[nm] = Sentinel(f"{self.name}.{nm}")
                else:
                    self.attrs[nm] = Sentinel(f"{self.name}.{nm}")

    def mro(self):
        out = [self]
        for b in self.bases:
            if isinstance(b, ClassVal):
                for c in b.mro():
                    if c not in out:
                        out.append(c)
        return out

    def lookup(self, name):
        for c in self.mro():
            if name in c.attrs:
                return c.attrs[name]
        return None

    def all_slots(self):
        """declared instance attributes, or None if instances have a __dict__"""
        out = []
        for c in self.mro():
            if c.node is None:
                return None
            if c.slots is None:
                return None
            out.extend(c.slots)
        if "__dict__" in out:
            return None
        return out

    def __repr__(self):
        return f"<class {self.name}>"


class BuiltinModule:
    def __init__(self, name):
        self.name = name


# names resolved to Builtin("<name>") when met at module level through stdlib imports or python builtins
PY_BUILTINS = {
    "isinstance", "hasattr", "getattr", "setattr", "callable", "len", "range", "enumerate", "reversed", "tuple", "list",
    "dict", "set", "object", "bool", "type", "hash", "map", "zip", "iter", "next", "slice", "id", "int", "str",
    "super", "property", "staticmethod", "classmethod", "issubclass", "min", "max", "sorted", "repr", "any", "all",
    "float", "bytes", "bytearray", "print", "frozenset", "sum",
}
EXC_NAMES = set(EXC_PARENTS)


class Module:
    """one source file parsed from the working tree; names are resolved lazily through the Program"""
    def __init__(self, program, modname, path):
        self.program, self.modname, self.path = program, modname, path
        self.source = open(path).read()
        self.tree = ast.parse(self.source, filename=path)
        self.defs = {}
        self.imports = {}     # local name -> (kind, module, name)
        self.overrides = {}
        self._load()

    def _load(self):
        for n in self.tree.body:
            self._load_stmt(n)

    def _load_stmt(self, n):
        if isinstance(n, (ast.FunctionDef, ast.AsyncFunctionDef)):
            decos = [d.id if isinstance(d, ast.Name) else None for d in n.decorator_list]
            if "overload" in decos:
                return
            self.defs[n.name] = Closure(n, self, env=None)
        elif isinstance(n, ast.ClassDef):
            self.defs[n.name] = ("class", n)
        elif isinstance(n, ast.ImportFrom):
            for a in n.names:
                self.imports[a.asname or a.name] = ("from", n.level, n.module, a.name)
        elif isinstance(n, ast.Import):
            for a in n.names:
                self.imports[a.asname or a.name] = ("import", 0, a.name, None)
        elif isinstance(n, ast.Assign) and len(n.targets) == 1 and isinstance(n.targets[0], ast.Name):
            nm = n.targets[0].id
            v = n.value
            if isinstance(v, ast.Call) and isinstance(v.func, ast.Name) and v.func.id in (LIB_SENTINEL_CTOR, "object"):
                self.defs[nm] = Sentinel(f"{self.modname}.{nm}")
            elif isinstance(v, ast.Name):
                self.defs[nm] = ("alias", v.id)
            elif isinstance(v, ast.Constant):
                self.defs[nm] = ("const", v.value)
            else:
                self.defs[nm] = ("opaque", nm)
        elif isinstance(n, ast.If):
            # version switches: take both (later definitions win) - not used by asyncstdlib proper
            for b in n.body:
                self._load_stmt(b)

    def lookup(self, name):
        if name in self.overrides:
            return self.overrides[name]
        if name in self.defs:
            d = self.defs[name]
            if isinstance(d, tuple):
                if d[0] == "class":
                    node = d[1]
                    bases = []
                    for b in node.bases:
                        bn = b
                        while isinstance(bn, ast.Subscript):
                            bn = bn.value
                        if isinstance(bn, ast.Name):
                            try:
                                bv = self.lookup(bn.id)
                            except PyRaise:
                                bv = None
                            if isinstance(bv, ClassVal):
                                bases.append(bv)
                    cv = ClassVal(node, self, bases)
                    self.defs[name] = cv
                    return cv
                if d[0] == "alias":
                    return self.lookup(d[1])
                if d[0] == "const":
                    return d[1]
                if d[0] == "opaque":
                    return Sentinel(f"{self.modname}.{d[1]}")
            return d
        if name in self.imports:
            kind, level, mod, nm = self.imports[name]
            return self.program.resolve_import(self, kind, level, mod, nm)
        if name in EXC_NAMES:
            return ExcClass(name)
        if name in PY_BUILTINS:
            return Builtin(name)
        raise PyRaise(ExcVal("NameError", ident=("name", name)))


EXC_PARENTS["NameError"] = "Exception"


class Program:
    """the package under verification (or the reference sidecar) as a set of linked modules"""
    def __init__(self, root, package, fallback=None):
        self.root, self.package, self.fallback = root, package, fallback
        self.modules = {}

    STDLIB_DIR = None

    @classmethod
    def stdlib_dir(cls):
        """Lib/ of the interpreter that runs the test-suite (pure-Python stdlib sources are interpreted from there)"""
        if cls.STDLIB_DIR is None:
            import subprocess
            try:
                out = subprocess.run(["/venv/bin/python", "-c", "import heapq, os; print(os.path.dirname(heapq.__file__))"],
                                     capture_output=True, text=True, timeout=30).stdout.strip()
            except Exception:
                out = ""
            cls.STDLIB_DIR = out or os.path.dirname(os.__file__)
        return cls.STDLIB_DIR

    def module(self, modname):
        if modname not in self.modules and modname.startswith("stdlib:"):
            path = os.path.join(self.stdlib_dir(), modname[7:] + ".py")
            self.modules[modname] = Module(self, modname, path)
        if modname not in self.modules:
            path = os.path.join(self.root, modname + ".py")
            if not os.path.exists(path) and self.fallback:
                path = os.path.join(self.fallback, modname + ".py")
            self.modules[modname] = Module(self, modname, path)
        return self.modules[modname]

    def resolve_import(self, mod, kind, level, target, name):
        if kind == "from" and level >= 1:
            if target == "_support" and name == "await_":
                return Builtin("await_")
            if target is None:
                return self.module(name)
            m = self.module(target)
            return m.lookup(name)
        # standard-library import
        if kind == "import":
            return BuiltinModule(target)
        if target == "typing" or target == "types" or target == "__future__":
            return Builtin("typing." + name)
        if target == "builtins":
            return Builtin(name)
        if target in ("_typing",):
            return Builtin("typing." + name)
        return Builtin(f"{target}.{name}" if target not in ("collections", "functools", "inspect", "asyncio") else name)


# =====================================================================================
# iterators implemented by the interpreter itself (no environment events)
# =====================================================================================
class NativeIter:
    """iterator over interpreter-owned data: concrete sequence, (symbolic) range, symbolic list"""
    def __init__(self, kind, data, **kw):
        self.kind, self.data = kind, data
        self.idx = 0
        self.kw = kw

    def concrete_remaining(self):
        if self.kind == "seq":
            return True
        return False

    def next_(self, ctx):
        """-> (True, value) | (False, None)"""
        if self.kind == "seq":
            seq = self.data.items if isinstance(self.data, SList) else self.data
            if isinstance(self.data, SList) and self.data.seq is not None:
                self.kind = "slist"
                return self.next_(ctx)
            if self.idx < len(seq):
                v = seq[self.idx]
                self.idx += 1
                return True, v
            return False, None
        if self.kind == "range":
            start, stop = self.data
            cur = as_int(start) + as_int(self.idx)
            if ctx.branch(cur < as_int(stop)):
                self.idx = mk_int(as_int(self.idx) + 1)
                return True, mk_int(cur)
            return False, None
        if self.kind == "slist":
            s = self.data.seq
            i = as_int(self.idx)
            if ctx.branch(i < z3.Length(s)):
                self.idx = mk_int(i + 1)
                return True, Opaque(s[i])
            return False, None
        if self.kind == "enumerate":
            ok, v = self.data.next_(ctx)
            if not ok:
                return False, None
            i = self.idx
            self.idx = mk_int(as_int(self.idx) + 1)
            return True, (mk_int(as_int(self.kw.get("start", 0)) + as_int(i)), v)
        if self.kind == "zip":
            vals = []
            for it in self.data:
                ok, v = it.next_(ctx)
                if not ok:
                    return False, None
                vals.append(v)
            return True, tuple(vals)
        if self.kind == "map":
            raise Unsupported("native map iterator")
        raise Unsupported(f"native iter {self.kind}")


def native_iter(v, ctx=None):
    """python iter() over interpreter-owned data, or None"""
    if isinstance(v, NativeIter):
        return v
    if isinstance(v, (tuple, list)):
        return NativeIter("seq", list(v))
    if isinstance(v, SList):
        return NativeIter("seq" if v.seq is None else "slist", v)
    if isinstance(v, STuple):
        return NativeIter("slist", v)
    if isinstance(v, dict):
        return NativeIter("seq", list(v.keys()))
    if isinstance(v, DictView):
        return NativeIter("seq", v.as_list())
    return None


class LazyZip:
    """builtin zip over a mix of interpreter-owned iterators and environment sources (lazy, left to right)"""
    def __init__(self, parts):
        self.parts = parts


class DictView:
    def __init__(self, d, what):
        self.d, self.what = d, what

    def as_list(self):
        if self.what == "items":
            return [(k, v) for k, v in self.d.items()]
        if self.what == "values":
            return list(self.d.values())
        return list(self.d.keys())


class AwaitifyWrapped:
    """contract of _core.awaitify(f): calling it invokes f (Call event); the result is awaitable"""
    def __init__(self, fn):
        self.fn = fn

    @property
    def name(self):
        return getattr(self.fn, "name", "?")

    def __repr__(self):
        return f"awaitify({self.fn!r})"


class SrcMethod:
    def __init__(self, src, name):
        self.src, self.name = src, name


class EnvGenMethod:
    def __init__(self, gen, name):
        self.gen, self.name = gen, name


class GenMethod:
    def __init__(self, gen, name):
        self.gen, self.name = gen, name


class Pending:
    """awaitable produced by calling an environment/generator method; performed when awaited"""
    def __init__(self, kind, target, arg=None):
        self.kind, self.target, self.arg = kind, target, arg
        self.awaited = False


class ListMethod:
    def __init__(self, lst, name):
        self.lst, self.name = lst, name


class DictMethod:
    def __init__(self, d, name):
        self.d, self.name = d, name


class CMMethod:
    def __init__(self, cm, name):
        self.cm, self.name = cm, name


# =====================================================================================
# generators
# =====================================================================================
class GenObj:
    """a library generator object (async generator on the impl side, sync generator in references)"""
    def __init__(self, interp, fn, args, kwargs, is_async, env=None, body=None):
        self.interp, self.fn, self.args, self.kwargs = interp, fn, args, kwargs
        self.is_async = is_async
        self.host = None
        self.state = "fresh"   # fresh / suspended / running / done
        self.preenv = env      # for generator expressions: pre-bound environment
        self.body = body
        self.frame = None

    @property
    def stop_name(self):
        return "StopAsyncIteration" if self.is_async else "StopIteration"

    def __repr__(self):
        return f"Gen({self.fn.name},{self.state})"

    def _start(self):
        self.host = self.interp.run_body(self.fn, self.args, self.kwargs, gen=self, preenv=self.preenv)

    def send(self, resp):
        """host generator: resume with `resp` ("resume", v) | ("throw", exc); returns yielded value or
        raises PyRaise(Stop...)"""
        if self.state == "running":
            raise PyRaise(ExcVal("ValueError", ident="generator already executing"))
        if self.state == "done":
            if resp[0] == "throw":
                raise PyRaise(resp[1])
            raise PyRaise(ExcVal(self.stop_name, ident="end"))
        if self.state == "fresh":
            if resp[0] == "throw":
                self.state = "done"
                raise PyRaise(resp[1])
            self._start()
            first = lambda: next(self.host)
        else:
            first = lambda: self.host.send(resp)
        self.state = "running"
        step = first
        while True:
            try:
                ev = step()
            except StopIteration:
                self.state = "done"
                self._release()
                raise PyRaise(ExcVal(self.stop_name, ident="end"))
            except PyRaise as pr:
                self.state = "done"
                self._release()
                if pr.exc.cls in ("StopIteration", "StopAsyncIteration") and (self.is_async or pr.exc.cls == "StopIteration"):
                    # PEP 479 / PEP 525: Stop* escaping a generator body becomes RuntimeError
                    rt = ExcVal("RuntimeError", ident=("pep479", pr.exc.ident))
                    rt.cause = pr.exc
                    rt.context = pr.exc
                    raise PyRaise(rt)
                raise
            except (ReturnSig, BreakSig, ContinueSig):
                self.state = "done"
                raise
            if ev.kind == "GenYield" and ev.payload[0] is self:
                self.state = "suspended"
                return ev.payload[1]
            resp2 = yield ev           # bubble environment events (and foreign GenYields) up
            step = (lambda r=resp2: self.host.send(r))

    def _release(self):
        self.host = None

    def anext(self):
        return (yield from self.send(("resume", None)))

    def asend(self, v):
        return (yield from self.send(("resume", v)))

    def athrow(self, exc):
        return (yield from self.send(("throw", exc)))

    def aclose(self):
        if self.state == "fresh":
            self.state = "done"
            return None
        if self.state == "done":
            return None
        exc = ExcVal("GeneratorExit", ident=("close", id(self)))
        try:
            yield from self.send(("throw", exc))
        except PyRaise as e:
            if e.exc.cls in ("GeneratorExit", self.stop_name) and (e.exc is exc or e.exc.ident == "end" or e.exc.cls == "GeneratorExit"):
                return None
            raise
        raise PyRaise(ExcVal("RuntimeError", ident="generator ignored GeneratorExit"))


def has_yield(node):
    """does this function's own body (not nested functions) contain yield?"""
    def walk(n):
        for c in ast.iter_child_nodes(n):
            if isinstance(c, (ast.FunctionDef, ast.AsyncFunctionDef, ast.Lambda, ast.ClassDef)):
                continue
            if isinstance(c, (ast.Yield, ast.YieldFrom)):
                return True
            if isinstance(c, (ast.GeneratorExp,)):
                # yields cannot occur inside, but awaits might; skip
                continue
            if walk(c):
                return True
        return False
    return walk(node)


# =====================================================================================
# the interpreter proper
# =====================================================================================
class Interp:
    """one side (impl / ref) of a relational execution"""
    def __init__(self, ctx, side, opts=None):
        self.ctx, self.side = ctx, side
        self.frames = []
        self.opts = opts or {}
        self.direct_calls = []     # user callables invoked without awaitify on the impl side
        self.guards = []           # handler class names of the try bodies in execution (driver.user_exc_class)
        self.unawaited = []
        self.await_gaps = []
        self.neutral_calls = []
        self.flavour_tests = []

    # -- calls ------------------------------------------------------------
    def call(self, fn, args, kwargs, site=None):
        """host generator: returns the value of calling `fn`"""
        if isinstance(fn, Closure):
            node = fn.node
            if isinstance(node, ast.Lambda):
                return (yield from self.run_body(fn, args, kwargs))
            gen = has_yield(node)
            if gen:
                return GenObj(self, fn, list(args), dict(kwargs), isinstance(node, ast.AsyncFunctionDef))
            if isinstance(node, ast.AsyncFunctionDef):
                return Coroutine(fn, list(args), dict(kwargs))
            return (yield from self.run_body(fn, args, kwargs))
        if isinstance(fn, BoundMethod):
            return (yield from self.call(fn.fn, [fn.obj] + list(args), kwargs, site))
        if isinstance(fn, ClassVal):
            return (yield from self.instantiate(fn, args, kwargs))
        if isinstance(fn, UserFn):
            return (yield from self.call_user(fn, args, kwargs, site, direct=True))
        if isinstance(fn, AwaitifyWrapped):
            if isinstance(fn.fn, UserFn):
                return (yield from self.call_user(fn.fn, args, kwargs, site, direct=False))
            # a synchronous callable of known kind (sync context-manager method, library function)
            try:
                r = yield from self.call(fn.fn, args, kwargs, site)
                outcome = ("ret", r)
            except PyRaise as pr:
                outcome = ("raise", pr.exc)
            return UserAwaitable(outcome, self.ctx.evseq, None)
        if isinstance(fn, Builtin):
            from .builtins_model import call_builtin
            return (yield from call_builtin(self, fn.name, list(args), dict(kwargs), site))
        if isinstance(fn, Partial):
            kw = dict(fn.kwargs)
            kw.update(kwargs)
            return (yield from self.call(fn.fn, list(fn.args) + list(args), kw, site))
        if isinstance(fn, SrcMethod):
            if fn.name == "__anext__":
                return Pending("pull", fn.src)
            if fn.name == "aclose":
                return Pending("aclose", fn.src)
            if fn.name == "close":
                # reference side of a job with `aclose_faults`: closing the source fails exactly when the impl's aclose does
                f = self.aclose_outcome(fn.src)
                if f is not None:
                    raise PyRaise(f)
                return None
            if fn.name == "__aiter__":
                return fn.src
            if fn.name in ("asend", "athrow"):
                return Pending(fn.name, fn.src, args[0] if args else None)
            if fn.name in ("send", "throw"):
                return (yield from self.src_op(fn.src, fn.name, args[0] if args else None, site))
            if fn.name == "__next__":
                return (yield from self.pull(fn.src))
        if isinstance(fn, EnvGenMethod):
            op = {"__anext__": "next", "__next__": "next", "asend": "send", "send": "send", "athrow": "throw", "throw": "throw",
                  "aclose": "close", "close": "close"}.get(fn.name)
            if op is None:
                return fn.gen
            arg = args[0] if args else None
            if op == "throw" and len(args) == 3:
                arg = args[1]
            if fn.name in ("__anext__", "asend", "athrow", "aclose"):
                return Pending("envgen", fn.gen, (op, arg))
            return (yield from self.envgen_op(fn.gen, op, arg, site))
        if isinstance(fn, GenMethod) and isinstance(fn.gen, NativeIter):
            g = fn.gen
            if fn.name in ("__aiter__", "__iter__"):
                return g
            if fn.name == "__next__":
                return (yield from self.pull(g, site, sync=True))
            if fn.name == "__anext__":
                return Pending("pull", g)
            if fn.name == "aclose":
                return Pending("native_aclose", g)
        if isinstance(fn, GenMethod):
            g = fn.gen
            if fn.name in ("__aiter__", "__iter__"):
                return g
            if fn.name == "__next__":
                return (yield from g.anext())
            if fn.name == "close":
                return (yield from g.aclose())
            if fn.name == "__anext__":
                return Pending("gen_anext", g)
            if fn.name == "aclose":
                return Pending("gen_aclose", g)
            if fn.name == "asend":
                return Pending("gen_asend", g, args[0])
            if fn.name == "athrow":
                return Pending("gen_athrow", g, args[0] if len(args) == 1 else args[1])
        if isinstance(fn, CoroAwaitMethod):
            return AwaitIter(fn.coro)
        if isinstance(fn, ListMethod):
            from .builtins_model import list_method
            return (yield from list_method(self, fn.lst, fn.name, list(args), dict(kwargs)))
        if isinstance(fn, DictMethod):
            from .builtins_model import dict_method
            return (yield from dict_method(self, fn.d, fn.name, list(args), dict(kwargs)))
        if isinstance(fn, CMMethod):
            op = "enter" if "enter" in fn.name else "exit"
            if fn.name.startswith("__a"):
                return Pending("cm", fn.cm, (op, tuple(args)))
            return (yield from self.cm_op(fn.cm, op, tuple(args), site))
        if isinstance(fn, ExcClass):
            e = ExcVal(fn.name)
            e.args = tuple(args)
            return e
        if isinstance(fn, Obj):
            m = fn.cls.lookup("__call__") if fn.cls else None
            if m is not None:
                return (yield from self.call(m, [fn] + list(args), kwargs, site))
        raise Unsupported(f"call of {fn!r}")

    def call_user(self, fn, args, kwargs, site, direct):
        """invoke a user callable: a Call event answered by the environment.
        direct=False: through the awaitify contract -> returns a UserAwaitable."""
        ctx = self.ctx
        if direct and self.side == "impl" and not self.opts.get("direct_calls_ok"):
            self.direct_calls.append((fn.name, site))
        resp = yield Ev("Call", fn, tuple(args), tuple(sorted(kwargs.items(), key=lambda kv: kv[0])), site=site)
        ctx.evseq += 1
        kind, payload = resp
        if direct and not (fn.flavour == "corofn" and getattr(fn, "inspected", False)):
            if kind == "ret":
                return payload
            raise PyRaise(payload)
        # through awaitify, or a callable the code found to be a coroutine function and calls directly: the outcome is
        # delivered when the result is awaited (jobs that declare flavour="corofn" themselves answer with awaitables)
        ua = UserAwaitable((kind, payload), ctx.evseq, fn)
        self.unawaited.append(ua)
        if not direct:
            self.neutral_calls.append((fn.name, site))
        return ua

    def instantiate(self, cls, args, kwargs):
        if cls.node is None:
            raise Unsupported(f"instantiate {cls!r}")
        base_names = [b.id for b in cls.node.bases if isinstance(b, ast.Name)]
        if "NamedTuple" in base_names:
            fields = [n.target.id for n in cls.node.body if isinstance(n, ast.AnnAssign)]
            vals = list(args) + [kwargs[f] for f in fields[len(args):]]
            return tuple(vals)
        if "TypedDict" in base_names:
            return dict(kwargs)
        obj = Obj(cls)
        init = cls.lookup("__init__")
        if init is not None:
            yield from self.call(init, [obj] + list(args), kwargs)
        return obj

    def pull(self, it, site=None, sync=None):
        """`__anext__` / `next` on iterator `it`: returns the item or raises PyRaise(Stop...)"""
        if sync is None:
            sync = self.side != "impl"
        stop = "StopIteration" if sync else "StopAsyncIteration"
        if isinstance(it, Source):
            if it.state in ("exhausted", "raised") or (it.state == "closed" and (self.side == "impl" or it.ended)):
                # A5: re-polling a finished source is not an observable event.  A source the IMPL has closed is
                # still open from the reference's point of view: its further pulls are events (and mismatches)
                self.ctx_repoll(it)
                raise PyRaise(ExcVal(stop, ident="end"))
            resp = yield Ev("Pull", it, site=site)
            self.ctx.evseq += 1
            kind, payload = resp
            if kind == "item":
                return payload
            if kind == "end":
                raise PyRaise(ExcVal(stop, ident="end"))
            raise PyRaise(payload)
        if isinstance(it, GenObj):
            return (yield from it.anext())
        if isinstance(it, LazyZip):
            vals = []
            for part in it.parts:
                vals.append((yield from self.pull(part, site, sync=True)))
            return tuple(vals)
        if isinstance(it, EnvGen):
            return (yield from self.envgen_op(it, "next", None, site))
        if isinstance(it, NativeIter):
            ok, v = it.next_(self.ctx)
            if ok:
                return v
            raise PyRaise(ExcVal(stop, ident="end"))
        if isinstance(it, Obj):
            m = self.getattr(it, "__anext__" if self.side == "impl" else "__next__")
            r = yield from self.call(m, [], {})
            if self.side == "impl":
                return (yield from self.await_(r, site))
            return r
        raise Unsupported(f"pull from {it!r}")

    def src_op(self, src, op, arg, site):
        """send / throw forwarded to a user generator-like source: one environment event"""
        stop = "StopAsyncIteration" if self.side == "impl" else "StopIteration"
        if src.state in ("exhausted", "raised") or (src.state == "closed" and (self.side == "impl" or src.ended)):
            if op == "throw":
                raise PyRaise(arg)
            raise PyRaise(ExcVal(stop, ident="end"))
        resp = yield Ev("SrcOp", src, op, arg, site=site)
        self.ctx.evseq += 1
        kind, payload = resp
        if kind == "item":
            return payload
        if kind == "end":
            raise PyRaise(ExcVal(stop, ident="end"))
        raise PyRaise(payload)

    def cm_op(self, cm, op, args, site):
        """enter / exit of a user context manager (or lock): one environment event"""
        resp = yield Ev("CM", cm, op, args, site=site)
        self.ctx.evseq += 1
        kind, payload = resp
        if kind == "ret":
            return payload
        raise PyRaise(payload)

    def envgen_op(self, gen, op, arg, site):
        """next / send / throw / close on a user generator object: one environment event"""
        stop = "StopAsyncIteration" if self.side == "impl" else "StopIteration"
        resp = yield Ev("GenOp", gen, op, arg, site=site)
        self.ctx.evseq += 1
        kind, payload = resp
        if kind == "yield":
            return payload
        if kind == "ok":
            return None
        if kind == "stop":
            raise PyRaise(ExcVal(stop, ident=payload, origin="env-stop"))
        raise PyRaise(payload)

    def ctx_repoll(self, src):
        self.ctx.repolls = getattr(self.ctx, "repolls", 0) + 1
        by = self.ctx.__dict__.setdefault("repolls_by_side", {"impl": 0, "ref": 0})
        by[self.side] += 1

    def aclose_outcome(self, src):
        """jobs with `aclose_faults`: the source's own aclose may fail or be cancelled (decided once per source, by
        whichever side closes it first; both sides see the same outcome)"""
        if not self.opts.get("aclose_faults"):
            return None
        if not hasattr(src, "aclose_fault"):
            c = self.ctx.choose(3, f"aclose of {src.name}")
            src.aclose_fault = None if c == 0 else ExcVal("UserError" if c == 1 else "Cancelled", ident=("aclose", src.name), origin="env")
        return src.aclose_fault

    def aclose_source(self, src, site=None):
        if not src.has_aclose:
            raise PyRaise(ExcVal("AttributeError", ident="aclose"))
        yield Ev("AClose", src, site=site)
        src.closes += 1
        fault = self.aclose_outcome(src)
        if fault is not None:
            # an async generator is finished by a failing close; a class-based iterator simply stays as it was
            if src.kind == "gen":
                src.state = "closed"
            raise PyRaise(fault)
        if src.state in ("exhausted", "raised"):
            src.ended = True
        src.state = "closed" if src.state != "exhausted" else "exhausted"
        return None

    def await_(self, aw, site=None):
        if isinstance(aw, Coroutine):
            if aw.started:
                raise PyRaise(ExcVal("RuntimeError", ident="cannot reuse already awaited coroutine"))
            aw.started = True
            return (yield from self.run_body(aw.fn, aw.args, aw.kwargs))
        if isinstance(aw, UserAwaitable):
            if aw.awaited:
                raise PyRaise(ExcVal("RuntimeError", ident="cannot reuse already awaited coroutine"))
            aw.awaited = True
            if aw in self.unawaited:
                self.unawaited.remove(aw)
            if self.ctx.evseq != aw.at:
                self.await_gaps.append((aw.fn.name if aw.fn else "?", site))
            kind, payload = aw.outcome
            if kind == "ret":
                return payload
            raise PyRaise(payload)
        if isinstance(aw, Pending):
            if aw.awaited and aw.kind not in ():
                raise PyRaise(ExcVal("RuntimeError", ident="cannot reuse already awaited coroutine"))
            aw.awaited = True
            k = aw.kind
            if k == "pull":
                return (yield from self.pull(aw.target, site))
            if k == "aclose":
                return (yield from self.aclose_source(aw.target, site))
            if k == "envgen":
                return (yield from self.envgen_op(aw.target, aw.arg[0], aw.arg[1], site))
            if k == "native_aclose":
                aw.target.kind, aw.target.data, aw.target.idx = "seq", [], 0
                return None
            if k == "gen_anext":
                return (yield from aw.target.anext())
            if k == "gen_aclose":
                return (yield from aw.target.aclose())
            if k == "gen_asend":
                return (yield from aw.target.asend(aw.arg))
            if k == "gen_athrow":
                return (yield from aw.target.athrow(aw.arg))
            if k in ("asend", "athrow"):
                return (yield from self.src_op(aw.target, k[1:], aw.arg, site))
            if k == "cm":
                return (yield from self.cm_op(aw.target, aw.arg[0], aw.arg[1], site))
            raise Unsupported(f"await pending {k}")
        if isinstance(aw, EnvAwaitable):
            done = aw.__dict__.setdefault("awaited_by", set())
            if self.side in done:
                raise PyRaise(ExcVal("RuntimeError", ident="cannot reuse already awaited coroutine"))
            done.add(self.side)
            resp = yield Ev("Await", aw, site=site)
            self.ctx.evseq += 1
            kind, payload = resp
            if kind == "ret":
                return payload
            raise PyRaise(payload)
        if isinstance(aw, Obj):
            m = aw.cls.lookup("__await__")
            if m is not None:
                r = yield from self.call(m, [aw], {})
                # `__await__` returns an iterator; the library's own implementations either delegate to a
                # coroutine's __await__ (modelled as AwaitIter) or are generator functions returning a value
                if isinstance(r, AwaitIter):
                    return (yield from self.await_(r.coro, site))
                if isinstance(r, GenObj):
                    try:
                        yield from r.anext()
                    except PyRaise as pr:
                        if pr.exc.cls == "StopIteration":
                            return getattr(r, "retval", None)
                        raise
                    raise PyRaise(ExcVal("RuntimeError", ident="bare yield in __await__"))
                raise Unsupported(f"__await__ returned {r!r}")
        if isinstance(aw, Opaque):
            # a user value awaited by the library: only legitimate where the contract says the value is awaitable
            resp = yield Ev("AwaitVal", aw, site=site)
            self.ctx.evseq += 1
            kind, payload = resp
            if kind == "ret":
                return payload
            raise PyRaise(payload)
        raise PyRaise(ExcVal("TypeError", ident=("not awaitable", type(aw).__name__)))

    # -- attribute access ----------------------------------------------------
    def getattr(self, o, name, frame=None):
        """non-generator attribute lookup; properties are returned as PropertyCall markers handled by caller"""
        if isinstance(o, Obj):
            if name in o.f:
                return o.f[name]
            if name == "__dict__":
                slots = o.cls.all_slots() if o.cls else None
                if slots is not None:
                    raise PyRaise(ExcVal("AttributeError", ident=("attr", name)))
                return InstanceDict(o)
            if name == "__class__":
                return o.cls
            m = o.cls.lookup(name) if o.cls else None
            if m is not None:
                if isinstance(m, Closure):
                    return BoundMethod(o, m)
                if isinstance(m, StaticMethod):
                    return m.fn
                if isinstance(m, ClassMethod):
                    return BoundMethod(o.cls, m.fn)
                if isinstance(m, Property):
                    return PropertyCall(o, m)
                if isinstance(m, Obj) and m.cls is not None and m.cls.lookup("__get__") is not None:
                    return DescriptorCall(o, m)
                return m
            raise PyRaise(ExcVal("AttributeError", ident=("attr", name)))
        if isinstance(o, ClassVal):
            m = o.lookup(name)
            if m is not None:
                if isinstance(m, StaticMethod):
                    return m.fn
                if isinstance(m, ClassMethod):
                    return BoundMethod(o, m.fn)
                return m
            if name == "__name__":
                return o.name
            if name == "__doc__":
                return None
            raise PyRaise(ExcVal("AttributeError", ident=("attr", name)))
        if isinstance(o, Source):
            if name in ("__anext__", "__aiter__", "__next__", "__iter__"):
                return SrcMethod(o, name)
            if name == "close" and self.side == "ref":
                if not o.has_aclose:
                    raise PyRaise(ExcVal("AttributeError", ident=("attr", name)))
                if self.opts.get("aclose_faults"):
                    return SrcMethod(o, "close")
                return Builtin("noop")
            if name == "aclose":
                if not o.has_aclose:
                    raise PyRaise(ExcVal("AttributeError", ident=("attr", name)))
                return SrcMethod(o, name)
            if name in ("asend", "athrow", "send", "throw"):
                ok = o.kind == "gen" or (o.kind == "throwonly" and name in ("athrow", "throw"))
                if not ok or (name in ("send", "throw")) != (self.side == "ref"):
                    raise PyRaise(ExcVal("AttributeError", ident=("attr", name)))
                return SrcMethod(o, name)
            raise PyRaise(ExcVal("AttributeError", ident=("attr", name)))
        if isinstance(o, EnvGen):
            if name in ("__anext__", "aclose", "asend", "athrow", "__aiter__", "__next__", "__iter__", "close", "throw", "send"):
                return EnvGenMethod(o, name)
            raise PyRaise(ExcVal("AttributeError", ident=("attr", name)))
        if isinstance(o, GenObj):
            if name in ("__anext__", "aclose", "asend", "athrow", "__aiter__", "__next__", "__iter__", "close"):
                return GenMethod(o, name)
            raise PyRaise(ExcVal("AttributeError", ident=("attr", name)))
        if isinstance(o, NativeIter):
            # the async iterator `_core.aiter` provides for a plain iterable: an async generator (has aclose)
            if name in ("__anext__", "aclose", "__aiter__", "__next__", "__iter__"):
                return GenMethod(o, name)
            raise PyRaise(ExcVal("AttributeError", ident=("attr", name)))
        if isinstance(o, SList):
            return ListMethod(o, name)
        if isinstance(o, (dict, InstanceDict)):
            return DictMethod(o, name)
        if isinstance(o, ExcVal):
            if name == "__cause__":
                return o.cause
            if name == "__context__":
                return o.context
            if name == "__traceback__":
                return TB
            if name == "args":
                return tuple(o.args)
        if isinstance(o, BuiltinModule):
            if o.name == "builtins":
                return Builtin(name)
            return Builtin(f"{o.name}.{name}")
        if isinstance(o, UserCM):
            if self.side == "ref":
                # the synchronous reference sees every manager through __enter__/__exit__
                if name in ("__enter__", "__exit__"):
                    return CMMethod(o, name)
                raise PyRaise(ExcVal("AttributeError", ident=("attr", name)))
            if name in ("__aenter__", "__aexit__") and o.kind == "async":
                return CMMethod(o, name)
            if name in ("__enter__", "__exit__") and o.kind == "sync":
                return CMMethod(o, name)
            raise PyRaise(ExcVal("AttributeError", ident=("attr", name)))
        if isinstance(o, (UserFn, Closure)):
            if isinstance(o, Closure) and name in o.attrs:
                return o.attrs[name]
            if name in ("__doc__", "__module__", "__name__", "__qualname__", "__wrapped__", "__dict__", "__annotations__"):
                return Sentinel(f"meta.{name}")
            raise PyRaise(ExcVal("AttributeError", ident=("attr", name)))
        if isinstance(o, Coroutine):
            if name == "__await__":
                return CoroAwaitMethod(o)
        if isinstance(o, SrcMethod) and name == "__self__":
            return o.src
        if isinstance(o, Slice3):
            return getattr(o, name)
        if isinstance(o, Opaque):
            raise Unsupported(f"attribute {name} of a user value")
        if isinstance(o, AwaitifyWrapped) and name == "__wrapped__":
            return o.fn
        raise Unsupported(f"attribute {name} of {o!r}")

    def resolve_attr(self, r):
        if isinstance(r, PropertyCall):
            return (yield from self.call(r.prop.fget, [r.obj], {}))
        if isinstance(r, DescriptorCall):
            g = r.desc.cls.lookup("__get__")
            return (yield from self.call(g, [r.desc, r.obj, r.obj.cls], {}))
        return r

    def hasattr(self, o, name):
        if isinstance(o, Opaque) and name == "__await__":
            # a user value may or may not be awaitable (a Task, a Future, ...): an unknown predicate of the value
            return self.ctx.branch(z3.Function("is_awaitable", Val, z3.BoolSort())(o.t))
        try:
            self.getattr(o, name)
            return True
        except PyRaise as pr:
            if pr.exc.cls == "AttributeError":
                return False
            raise

    # -- function bodies ------------------------------------------------------
    def run_body(self, fn, args, kwargs, gen=None, preenv=None):
        if preenv is not None:
            env = dict(preenv)
        else:
            env = yield from self.bind(fn, args, kwargs)
        fr = Frame(self, env, fn, gen)
        if gen is not None:
            gen.frame = fr
        self.frames.append(fr)
        try:
            try:
                if isinstance(fn.node, ast.Lambda):
                    return (yield from fr.ev(fn.node.body))
                if isinstance(fn.node, (ast.GeneratorExp, ast.ListComp, ast.SetComp, ast.DictComp)):
                    return (yield from fr.run_comprehension(fn.node))
                yield from fr.exec_block(fn.node.body)
            except ReturnSig as r:
                if gen is not None:
                    gen.retval = r.value
                    return None
                return r.value
            return None
        finally:
            if fr in self.frames:
                self.frames.remove(fr)

    def bind(self, fn, args, kwargs):
        node = fn.node
        a = node.args
        env = {}
        pos = [p.arg for p in a.posonlyargs + a.args]
        npos_only = len(a.posonlyargs)
        defaults = [None] * (len(pos) - len(a.defaults)) + list(a.defaults)
        args = list(args)
        kwargs = dict(kwargs)
        for i, p in enumerate(pos):
            if i < len(args):
                env[p] = args[i]
            elif p in kwargs and i >= npos_only:
                env[p] = kwargs.pop(p)
            elif defaults[i] is not None:
                env[p] = yield from self.default_eval(defaults[i], fn)
            else:
                raise PyRaise(ExcVal("TypeError", ident=("missing argument", p)))
        if a.vararg:
            env[a.vararg.arg] = tuple(args[len(pos):])
        elif len(args) > len(pos):
            raise PyRaise(ExcVal("TypeError", ident="too many positional arguments"))
        for p, d in zip(a.kwonlyargs, a.kw_defaults):
            if p.arg in kwargs:
                env[p.arg] = kwargs.pop(p.arg)
            elif d is not None:
                env[p.arg] = yield from self.default_eval(d, fn)
            else:
                raise PyRaise(ExcVal("TypeError", ident=("missing keyword argument", p.arg)))
        if a.kwarg:
            env[a.kwarg.arg] = dict(kwargs)
        elif kwargs:
            raise PyRaise(ExcVal("TypeError", ident=("unexpected keyword", tuple(sorted(kwargs)))))
        return env

    def default_eval(self, node, fn):
        """default values are evaluated at definition time: only constants / module-level names occur"""
        if isinstance(node, ast.Constant):
            return node.value
        cache = fn.module.__dict__.setdefault("_default_cache", {})
        key = (id(fn.node), node.lineno, node.col_offset)
        if key in cache:
            return cache[key]
        if isinstance(node, ast.Name):
            v = self.lookup_global(fn, node.id)
        elif isinstance(node, ast.Tuple) and all(isinstance(e, (ast.Name, ast.Constant)) for e in node.elts):
            v = tuple(e.value if isinstance(e, ast.Constant) else self.lookup_global(fn, e.id) for e in node.elts)
        elif isinstance(node, ast.Call) and isinstance(node.func, ast.Name) and node.func.id == "object":
            v = Sentinel(f"default@{node.lineno}")
        else:
            raise Unsupported(f"default expression {ast.dump(node)[:60]}")
        cache[key] = v
        return v
        yield

    def lookup_global(self, fn, name):
        e = fn.env
        while e is not None:
            if name in e.vars:
                return e.vars[name]
            e = e.parent
        return fn.module.lookup(name)


class EnvChain:
    """closure environment: variables of an enclosing activation"""
    def __init__(self, vars, parent):
        self.vars, self.parent = vars, parent


class InstanceDict:
    def __init__(self, obj):
        self.obj = obj


class PropertyCall:
    def __init__(self, obj, prop):
        self.obj, self.prop = obj, prop


class DescriptorCall:
    """attribute found on the class is a (non-data) descriptor object: `type(d).__get__(d, instance, owner)`"""
    def __init__(self, obj, desc):
        self.obj, self.desc = obj, desc


class AwaitIter:
    """iterator returned by `coroutine.__await__()`"""
    def __init__(self, coro):
        self.coro = coro


class CoroAwaitMethod:
    def __init__(self, coro):
        self.coro = coro


class Slice3:
    def __init__(self, start, stop, step):
        self.start, self.stop, self.step = start, stop, step


TB = Sentinel("traceback")


def site_of(node):
    return (getattr(node, "lineno", 0), getattr(node, "col_offset", 0))


class Frame:
    def __init__(self, interp, env, fn, gen):
        self.i, self.env, self.fn, self.gen = interp, env, fn, gen
        self.ctx = interp.ctx
        self.cur = None          # current statement (control location for cut keys)
        self.hidden = {}         # host-level loop indices / pending signals, part of the state shape
        self.exc_stack = []      # exceptions being handled (for bare `raise`)
        self.chain = EnvChain(self.env, fn.env)

    @property
    def name(self):
        return self.fn.name

    # ---- statements -------------------------------------------------------
    def exec_block(self, stmts):
        for s in stmts:
            yield from self.exec(s)

    def exec(self, s):
        self.cur = s
        m = getattr(self, "s_" + type(s).__name__, None)
        if m is None:
            raise Unsupported(f"statement {type(s).__name__} at {self.fn.module.modname}:{s.lineno}")
        yield from m(s)

    def s_Expr(self, s):
        if isinstance(s.value, ast.Constant):
            return
        yield from self.ev(s.value)

    def s_Pass(self, s):
        return
        yield

    def s_Assert(self, s):
        c = yield from self.ev(s.test)
        if not self.ctx.branch(to_bool(self.ctx, c)):
            raise PyRaise(ExcVal("AssertionError"))

    def s_Delete(self, s):
        for t in s.targets:
            if isinstance(t, ast.Name):
                if t.id in self.env:
                    del self.env[t.id]
                else:
                    raise PyRaise(ExcVal("NameError", ident=("name", t.id)))
            elif isinstance(t, ast.Attribute):
                o = yield from self.ev(t.value)
                nm = self.mangle(t.attr)
                if isinstance(o, Obj) and nm in o.f:
                    del o.f[nm]
                else:
                    raise PyRaise(ExcVal("AttributeError", ident=("attr", nm)))
            elif isinstance(t, ast.Subscript):
                o = yield from self.ev(t.value)
                k = yield from self.ev(t.slice)
                from .builtins_model import del_item
                yield from del_item(self.i, o, k)
            else:
                raise Unsupported("del target")

    def s_Assign(self, s):
        v = yield from self.ev(s.value)
        for t in s.targets:
            yield from self.assign(t, v)

    def s_AnnAssign(self, s):
        if s.value is not None:
            v = yield from self.ev(s.value)
            yield from self.assign(s.target, v)

    def s_AugAssign(self, s):
        t = s.target
        if isinstance(t, ast.Name):
            cur = yield from self.ev(ast.copy_location(ast.Name(id=t.id, ctx=ast.Load()), t))
            rhs = yield from self.ev(s.value)
            v = yield from self.binop(s.op, cur, rhs, s, inplace=True)
            yield from self.assign(t, v)
        elif isinstance(t, ast.Attribute):
            o = yield from self.ev(t.value)
            nm = self.mangle(t.attr)
            cur = yield from self.load_attr(o, nm)
            rhs = yield from self.ev(s.value)
            v = yield from self.binop(s.op, cur, rhs, s, inplace=True)
            yield from self.store_attr(o, nm, v)
        else:
            raise Unsupported("augmented assignment target")

    def mangle(self, attr):
        if attr.startswith("__") and not attr.endswith("__") and self.fn.cls is not None:
            return f"_{self.fn.cls.name.lstrip('_')}{attr}"
        return attr

    def store_attr(self, o, nm, v):
        if isinstance(o, Obj):
            slots = o.cls.all_slots() if o.cls else None
            if slots is not None and nm not in slots and not any(self.mangle_for(c, s) == nm for c in o.cls.mro() for s in (c.slots or ())):
                raise PyRaise(ExcVal("AttributeError", ident=("attr", nm)))
            o.f[nm] = v
        elif isinstance(o, Closure):
            o.attrs[nm] = v
        elif isinstance(o, ExcVal):
            if nm == "__context__":
                o.context = v
            elif nm == "__cause__":
                o.cause = v
            elif nm == "__traceback__":
                pass        # tracebacks are not part of any property
            else:
                raise Unsupported(f"store exc attr {nm}")
        elif isinstance(o, ClassVal):
            o.attrs[nm] = v
        else:
            raise Unsupported(f"store attribute {nm} on {o!r}")
        return
        yield

    @staticmethod
    def mangle_for(cls, slot):
        if slot.startswith("__") and not slot.endswith("__"):
            return f"_{cls.name.lstrip('_')}{slot}"
        return slot

    def assign(self, t, v):
        if isinstance(t, ast.Name):
            self.env[t.id] = v
        elif isinstance(t, (ast.Tuple, ast.List)):
            vals = yield from self.unpack(v, len(t.elts), t)
            for tt, vv in zip(t.elts, vals):
                yield from self.assign(tt, vv)
        elif isinstance(t, ast.Attribute):
            o = yield from self.ev(t.value)
            yield from self.store_attr(o, self.mangle(t.attr), v)
        elif isinstance(t, ast.Subscript):
            o = yield from self.ev(t.value)
            k = yield from self.ev(t.slice)
            from .builtins_model import set_item
            yield from set_item(self.i, o, k, v)
        elif isinstance(t, ast.Starred):
            raise Unsupported("starred assignment")
        else:
            raise Unsupported(ast.dump(t))

    def unpack(self, v, n, node):
        if isinstance(v, (tuple, list)):
            if len(v) != n:
                raise PyRaise(ExcVal("ValueError", ident="unpack"))
            return list(v)
        if isinstance(v, SList) and v.seq is None:
            if len(v.items) != n:
                raise PyRaise(ExcVal("ValueError", ident="unpack"))
            return list(v.items)
        if isinstance(v, Opaque):
            # destructuring a user object: may fail in user code -> Op event
            resp = yield Ev("Op", "unpack", (v, n), site=site_of(node))
            self.ctx.evseq += 1
            kind, payload = resp
            if kind == "ret":
                return list(payload)
            raise PyRaise(payload)
        raise Unsupported(f"unpack {v!r}")

    def s_Return(self, s):
        v = None
        if s.value is not None:
            v = yield from self.ev(s.value)
        raise ReturnSig(v)

    def s_Raise(self, s):
        if s.exc is None:
            if not self.exc_stack:
                raise PyRaise(ExcVal("RuntimeError", ident="No active exception to reraise"))
            raise PyRaise(self.exc_stack[-1])
        e = yield from self.ev(s.exc)
        if isinstance(e, ExcClass):
            e = ExcVal(e.name, ident=("raised-at", s.lineno))
        if not isinstance(e, ExcVal):
            raise Unsupported(f"raise {e!r}")
        if s.cause is not None:
            c = yield from self.ev(s.cause)
            e.cause = c
        if self.exc_stack and e.context is None and e is not self.exc_stack[-1]:
            e.context = self.exc_stack[-1]
        raise PyRaise(e)

    def s_Break(self, s):
        raise BreakSig()
        yield

    def s_Continue(self, s):
        raise ContinueSig()
        yield

    def s_If(self, s):
        c = yield from self.ev(s.test)
        if self.ctx.branch(to_bool(self.ctx, c)):
            yield from self.exec_block(s.body)
        else:
            yield from self.exec_block(s.orelse)

    def s_FunctionDef(self, s):
        fn = Closure(s, self.fn.module, env=self.chain, cls=None)
        decos = []
        for d in s.decorator_list:
            decos.append((yield from self.ev(d)))
        v = fn
        for d in reversed(decos):
            v = yield from self.i.call(d, [v], {})
        self.env[s.name] = v

    s_AsyncFunctionDef = s_FunctionDef

    def s_Nonlocal(self, s):
        raise Unsupported("nonlocal")
        yield

    def match_handler(self, h, exc):
        """does `except h.type` catch exc?  (generator: evaluating the type expression)"""
        if h.type is None:
            return True
        t = yield from self.ev(h.type)
        ts = t if isinstance(t, tuple) else (t,)
        for c in ts:
            if isinstance(c, ExcClass):
                if exc_isinstance(exc, c.name):
                    return True
            else:
                raise Unsupported(f"except {c!r}")
        return False

    def s_Try(self, s):
        sig = None
        # ordinary exception classes named by the handlers: while the body runs, an injected user failure may be
        # of one of them (driver.user_exc_class)
        named = []
        for h in s.handlers:
            ts = h.type.elts if isinstance(h.type, ast.Tuple) else ([h.type] if h.type is not None else [])
            for t in ts:
                if isinstance(t, ast.Name) and t.id in ORDINARY_EXC:
                    named.append(t.id)
        try:
            try:
                if named:
                    self.i.guards.append(named)
                try:
                    yield from self.exec_block(s.body)
                finally:
                    if named:
                        self.i.guards.remove(named)
            except PyRaise as pr:
                handled = False
                for h in s.handlers:
                    self.exc_stack.append(pr.exc)
                    try:
                        ok = yield from self.match_handler(h, pr.exc)
                    finally:
                        self.exc_stack.pop()
                    if ok:
                        handled = True
                        if h.name:
                            self.env[h.name] = pr.exc
                        self.exc_stack.append(pr.exc)
                        self.hidden[("handling", site_of(s))] = (pr.exc.cls, str(pr.exc.ident))
                        try:
                            yield from self.exec_block(h.body)
                        finally:
                            self.exc_stack.pop()
                            self.hidden.pop(("handling", site_of(s)), None)
                            if h.name:
                                self.env.pop(h.name, None)
                        break
                if not handled:
                    raise
            else:
                yield from self.exec_block(s.orelse)
        except (PathEnd, GeneratorExit, Infeasible, Unsupported, Budget):
            raise          # host-level abort: no python-level cleanup
        except BaseException as e:
            if s.finalbody:
                if isinstance(e, PyRaise):
                    self.exc_stack.append(e.exc)
                    self.hidden[("finally", site_of(s))] = ("exc", e.exc.cls, str(e.exc.ident))
                else:
                    self.hidden[("finally", site_of(s))] = (type(e).__name__,)
                try:
                    yield from self.exec_block(s.finalbody)
                finally:
                    if isinstance(e, PyRaise):
                        self.exc_stack.pop()
                    self.hidden.pop(("finally", site_of(s)), None)
            raise
        else:
            if s.finalbody:
                yield from self.exec_block(s.finalbody)

    def s_AsyncWith(self, s):
        yield from self.with_items(s, s.items, s.body, True)

    def s_With(self, s):
        yield from self.with_items(s, s.items, s.body, False)

    def with_items(self, s, items, body, is_async):
        if not items:
            yield from self.exec_block(body)
            return
        it, rest = items[0], items[1:]
        cm = yield from self.ev(it.context_expr)
        enter_n, exit_n = ("__aenter__", "__aexit__") if is_async else ("__enter__", "__exit__")
        site = site_of(it.context_expr)
        # PEP 492: __aexit__ is looked up before __aenter__ is called
        try:
            enter_m = self.i.getattr(cm, enter_n)
            exit_m = self.i.getattr(cm, exit_n)
        except PyRaise as pr:
            if pr.exc.cls == "AttributeError":
                raise PyRaise(ExcVal("TypeError", ident=("not a context manager", enter_n)))
            raise
        val = yield from self.i.call(enter_m, [], {}, site)
        if is_async:
            val = yield from self.i.await_(val, site)
        if it.optional_vars is not None:
            yield from self.assign(it.optional_vars, val)
        try:
            yield from self.with_items(s, rest, body, is_async)
        except PyRaise as pr:
            self.exc_stack.append(pr.exc)
            self.hidden[("with-exit", site)] = ("exc", pr.exc.cls, str(pr.exc.ident))
            try:
                r = yield from self.i.call(exit_m, [ExcClass(pr.exc.cls), pr.exc, TB], {}, site)
                if is_async:
                    r = yield from self.i.await_(r, site)
            finally:
                self.exc_stack.pop()
                self.hidden.pop(("with-exit", site), None)
            if not self.ctx.branch(to_bool(self.ctx, r)):
                raise
        except (ReturnSig, BreakSig, ContinueSig) as sg:
            self.hidden[("with-exit", site)] = (type(sg).__name__,)
            try:
                r = yield from self.i.call(exit_m, [None, None, None], {}, site)
                if is_async:
                    yield from self.i.await_(r, site)
            finally:
                self.hidden.pop(("with-exit", site), None)
            raise
        else:
            r = yield from self.i.call(exit_m, [None, None, None], {}, site)
            if is_async:
                yield from self.i.await_(r, site)

    # ---- loops --------------------------------------------------------------
    def loop(self, node, next_item, body, orelse):
        """generic loop with cut-point notification"""
        while True:
            self.cur = node
            yield Ev("LoopHead", node, self, site=site_of(node))
            ok = yield from next_item()
            if not ok:
                yield from self.exec_block(orelse)
                return
            try:
                yield from self.exec_block(body)
            except BreakSig:
                return
            except ContinueSig:
                continue

    def s_While(self, s):
        def nxt():
            c = yield from self.ev(s.test)
            return self.ctx.branch(to_bool(self.ctx, c))
        yield from self.loop(s, nxt, s.body, s.orelse)

    def s_AsyncFor(self, s):
        it0 = yield from self.ev(s.iter)
        it = yield from self.aiter_of(it0, s)
        yield from self._for(s, it, True)

    def aiter_of(self, v, node):
        """`type(v).__aiter__(v)` of the async-for protocol"""
        if isinstance(v, (Source, GenObj)):
            if isinstance(v, GenObj) and not v.is_async:
                raise PyRaise(ExcVal("TypeError", ident="async for over sync generator"))
            return v
        if isinstance(v, NativeIter) and v.kw.get("async_wrapped"):
            return v
        if isinstance(v, Obj):
            m = v.cls.lookup("__aiter__")
            if m is None:
                # AsyncIterator ABC mixin: __aiter__ returns self when the class declares __anext__
                if v.cls.lookup("__anext__") is not None and any(isinstance(b, ast.Name) or True for b in v.cls.node.bases):
                    return v
                raise PyRaise(ExcVal("TypeError", ident="not async iterable"))
            return (yield from self.i.call(m, [v], {}))
        raise PyRaise(ExcVal("TypeError", ident=("'async for' requires __aiter__", type(v).__name__)))

    def s_For(self, s):
        it0 = yield from self.ev(s.iter)
        if isinstance(it0, (Source, GenObj, LazyZip)):
            if self.i.side == "impl" and isinstance(it0, Source) and it0.kind != "sync":
                raise PyRaise(ExcVal("TypeError", ident="'async iterator' object is not iterable"))
            yield from self._for(s, it0, False)
            return
        it = native_iter(it0)
        if it is None:
            if isinstance(it0, Opaque):
                raise Unsupported("for over a user value")
            raise Unsupported(f"for over {it0!r}")
        if it.kind == "seq":
            # statically sized: unroll (the index is host state -> recorded in `hidden` for cut keys)
            hk = ("for", site_of(s))
            try:
                while True:
                    self.hidden[hk] = it.idx
                    ok, v = it.next_(self.ctx)
                    if not ok:
                        break
                    if it.kind != "seq":
                        # the list was widened while we iterate it
                        raise Unsupported("list widened during iteration")
                    yield from self.assign(s.target, v)
                    try:
                        yield from self.exec_block(s.body)
                    except BreakSig:
                        return
                    except ContinueSig:
                        continue
            finally:
                self.hidden.pop(hk, None)
            yield from self.exec_block(s.orelse)
            return
        yield from self._for(s, it, False)

    def _for(self, s, it, is_async):
        stop = "StopAsyncIteration" if is_async else "StopIteration"
        def nxt():
            try:
                v = yield from self.i.pull(it, site_of(s), sync=not is_async)
            except PyRaise as pr:
                if pr.exc.cls == stop:
                    return False
                raise
            yield from self.assign(s.target, v)
            return True
        hk = ("iter", site_of(s))
        self.hidden[hk] = it
        try:
            yield from self.loop(s, nxt, s.body, s.orelse)
        finally:
            self.hidden.pop(hk, None)

    # ---- expressions ------------------------------------------------------
    def ev(self, e):
        m = getattr(self, "e_" + type(e).__name__, None)
        if m is None:
            raise Unsupported(f"expression {type(e).__name__} at {self.fn.module.modname}:{getattr(e, 'lineno', '?')}")
        return (yield from m(e))

    def e_Constant(self, e):
        return e.value
        yield

    def lookup(self, name):
        ch = self.chain
        while ch is not None:
            if name in ch.vars:
                return ch.vars[name]
            ch = ch.parent
        return self.fn.module.lookup(name)

    def e_Name(self, e):
        return self.lookup(e.id)
        yield

    def seq_elts(self, elts):
        out = []
        for x in elts:
            if isinstance(x, ast.Starred):
                v = yield from self.ev(x.value)
                vs = yield from self.spread(v, x)
                out.extend(vs)
            else:
                out.append((yield from self.ev(x)))
        return out

    def spread(self, v, node):
        """values of `*v` (statically sized) """
        if isinstance(v, (tuple, list)):
            return list(v)
        if isinstance(v, SList) and v.seq is None:
            return list(v.items)
        if isinstance(v, DictView):
            return v.as_list()
        if isinstance(v, GenObj) or isinstance(v, NativeIter):
            out = []
            while True:
                try:
                    x = yield from self.i.pull(v)
                except PyRaise as pr:
                    if pr.exc.cls in ("StopIteration", "StopAsyncIteration"):
                        break
                    raise
                out.append(x)
                if len(out) > 64:
                    raise Unsupported("unbounded spread")
            return out
        if isinstance(v, Opaque):
            return [StarArg(v)]
        if isinstance(v, (SList, STuple)):
            return [StarArg(v)]
        raise Unsupported(f"spread {v!r}")

    def e_Tuple(self, e):
        vals = yield from self.seq_elts(e.elts)
        if len(vals) == 1 and isinstance(vals[0], StarArg) and isinstance(vals[0].v, (SList, STuple)):
            return STuple(vals[0].v.to_seq() if isinstance(vals[0].v, SList) else vals[0].v.seq)
        if any(isinstance(v, StarArg) for v in vals):
            raise Unsupported("star of symbolic value in display")
        return tuple(vals)

    def e_List(self, e):
        vals = yield from self.seq_elts(e.elts)
        if any(isinstance(v, StarArg) for v in vals):
            raise Unsupported("star of symbolic value in display")
        return SList(items=list(vals))

    def e_Dict(self, e):
        d = {}
        for k, v in zip(e.keys, e.values):
            if k is None:
                vv = yield from self.ev(v)
                if isinstance(vv, dict):
                    d.update(vv)
                else:
                    raise Unsupported("dict spread")
            else:
                kk = yield from self.ev(k)
                d[kk] = yield from self.ev(v)
        return d

    def load_attr(self, o, nm):
        r = self.i.getattr(o, nm)
        return (yield from self.i.resolve_attr(r))

    def e_Attribute(self, e):
        o = yield from self.ev(e.value)
        return (yield from self.load_attr(o, self.mangle(e.attr)))

    def e_Subscript(self, e):
        o = yield from self.ev(e.value)
        if isinstance(o, ClassVal) or (isinstance(o, Builtin) and o.name.startswith("typing.")):
            return o          # Generic[...] subscripts are dropped (DESIGN 2.1)
        k = yield from self.ev(e.slice)
        from .builtins_model import get_item
        return (yield from get_item(self.i, o, k, site_of(e)))

    def e_Slice(self, e):
        lo = (yield from self.ev(e.lower)) if e.lower else None
        hi = (yield from self.ev(e.upper)) if e.upper else None
        st = (yield from self.ev(e.step)) if e.step else None
        return Slice3(lo, hi, st)

    def e_Call(self, e):
        f = yield from self.ev(e.func)
        args = yield from self.seq_elts(e.args)
        kwargs = {}
        for k in e.keywords:
            if k.arg is None:
                d = yield from self.ev(k.value)
                if not isinstance(d, dict):
                    raise Unsupported("** of non-dict")
                kwargs.update(d)
            else:
                kwargs[k.arg] = yield from self.ev(k.value)
        return (yield from self.i.call(f, args, kwargs, site_of(e)))

    def e_Await(self, e):
        aw = yield from self.ev(e.value)
        if self.i.side == "impl":
            self.ctx.awaits.append((self.fn.module.modname, e.lineno, await_kind(aw)))
        return (yield from self.i.await_(aw, site_of(e)))

    def e_Yield(self, e):
        v = None
        if e.value is not None:
            v = yield from self.ev(e.value)
        resp = yield Ev("GenYield", self.gen, v, site=site_of(e))
        if resp is None:
            return None
        if resp[0] == "throw":
            raise PyRaise(resp[1])
        return resp[1]

    def e_YieldFrom(self, e):
        it = yield from self.ev(e.value)
        if isinstance(it, SrcMethod):
            it = it.src
        stop = "StopAsyncIteration" if (self.gen is not None and self.gen.is_async) else "StopIteration"
        while True:
            try:
                v = yield from self.i.pull(it, site_of(e), sync=True)
            except PyRaise as pr:
                if pr.exc.cls == "StopIteration":
                    return None
                raise
            resp = yield Ev("GenYield", self.gen, v, site=site_of(e))
            if resp is not None and resp[0] == "throw":
                raise PyRaise(resp[1])

    def e_UnaryOp(self, e):
        v = yield from self.ev(e.operand)
        if isinstance(e.op, ast.Not):
            b = to_bool(self.ctx, v)
            return mk_bool(z3.Not(b)) if not isinstance(b, bool) else (not b)
        if isinstance(e.op, ast.USub):
            if isinstance(v, int):
                return -v
            return mk_int(-as_int(v))
        raise Unsupported("unary op")

    def e_BoolOp(self, e):
        last = None
        for x in e.values:
            last = yield from self.ev(x)
            b = self.ctx.branch(to_bool(self.ctx, last))
            if isinstance(e.op, ast.Or) and b:
                return last
            if isinstance(e.op, ast.And) and not b:
                return last
        return last

    def e_IfExp(self, e):
        c = yield from self.ev(e.test)
        if self.ctx.branch(to_bool(self.ctx, c)):
            return (yield from self.ev(e.body))
        return (yield from self.ev(e.orelse))

    def e_Compare(self, e):
        l = yield from self.ev(e.left)
        res = True
        for op, r_ in zip(e.ops, e.comparators):
            r = yield from self.ev(r_)
            c = yield from self.cmp(op, l, r, e)
            cb = to_bool(self.ctx, c)
            if len(e.ops) == 1:
                return c
            if not self.ctx.branch(cb):
                return False
            l = r
        return True

    def cmp(self, op, l, r, node):
        """generator -> value of `l op r`"""
        if isinstance(op, ast.Is):
            return mk_bool(identical(l, r))
        if isinstance(op, ast.IsNot):
            b = identical(l, r)
            return (not b) if isinstance(b, bool) else mk_bool(z3.Not(b))
        if isinstance(op, (ast.In, ast.NotIn)):
            from .builtins_model import contains
            b = yield from contains(self.i, r, l)
            if isinstance(op, ast.NotIn):
                bb = to_bool(self.ctx, b)
                return (not bb) if isinstance(bb, bool) else mk_bool(z3.Not(bb))
            return b
        from .builtins_model import rich_compare
        return (yield from rich_compare(self.i, op, l, r, site_of(node)))

    def e_BinOp(self, e):
        l = yield from self.ev(e.left)
        r = yield from self.ev(e.right)
        return (yield from self.binop(e.op, l, r, e))

    def binop(self, op, l, r, node, inplace=False):
        if isinstance(l, Opaque) or isinstance(r, Opaque):
            name = type(op).__name__.lower()
            if inplace and isinstance(l, Opaque):
                # in-place operators are only distinguishable (and may mutate) on a user object as left operand
                name = "i" + name
            resp = yield Ev("Op", name, (l, r), site=site_of(node))
            self.ctx.evseq += 1
            kind, payload = resp
            if kind == "ret":
                return payload
            raise PyRaise(payload)
        if isinstance(op, ast.BitXor):
            a, b = to_bool(self.ctx, l), to_bool(self.ctx, r)
            if isinstance(a, bool) and isinstance(b, bool):
                return a ^ b
            a = z3.BoolVal(a) if isinstance(a, bool) else a
            b = z3.BoolVal(b) if isinstance(b, bool) else b
            return mk_bool(z3.Xor(a, b))
        if isinstance(l, tuple) and isinstance(r, tuple) and isinstance(op, ast.Add):
            return l + r
        if isinstance(op, ast.Mult) and (isinstance(l, SList) or isinstance(r, SList)):
            lst, n = (l, r) if isinstance(l, SList) else (r, l)
            if lst.seq is None and isinstance(n, int) and type(lst) is SList and all(x is None or isinstance(x, (bool, int, str)) for x in lst.items):
                return SList(items=list(lst.items) * n)
            raise Unsupported("list repetition of a symbolic list / by a symbolic count")
        if isinstance(l, SList) and isinstance(r, SList) and isinstance(op, ast.Add) and l.seq is None and r.seq is None:
            return SList(items=list(l.items) + list(r.items))
        if isinstance(l, str) or isinstance(r, str):
            if isinstance(op, ast.Add) and isinstance(l, str) and isinstance(r, str):
                return l + r
            return "<str>"
        if isinstance(l, (int, bool)) and isinstance(r, (int, bool)) and not isinstance(op, (ast.Div,)):
            import operator
            f = {ast.Add: operator.add, ast.Sub: operator.sub, ast.Mult: operator.mul, ast.Mod: operator.mod,
                 ast.FloorDiv: operator.floordiv, ast.RShift: operator.rshift, ast.LShift: operator.lshift}.get(type(op))
            if f is None:
                raise Unsupported("int op")
            if isinstance(op, (ast.Mod, ast.FloorDiv)) and r == 0:
                raise PyRaise(ExcVal("ZeroDivisionError"))
            return f(l, r)
        li, ri = as_int(l), as_int(r)
        if isinstance(op, ast.Add):
            return mk_int(li + ri)
        if isinstance(op, ast.Sub):
            return mk_int(li - ri)
        if isinstance(op, ast.Mult):
            return mk_int(li * ri)
        if isinstance(op, (ast.Mod, ast.FloorDiv)):
            # python % and // equal SMT-LIB mod/div for a positive divisor; other divisors are outside the contracts
            if not self.ctx.branch(ri > 0):
                raise Unsupported("modulo/floor division by a non-positive symbolic divisor")
            return mk_int(li % ri) if isinstance(op, ast.Mod) else mk_int(li / ri)
        raise Unsupported(f"binop {type(op).__name__}")

    def e_JoinedStr(self, e):
        return "<fstring>"
        yield

    def e_NamedExpr(self, e):
        v = yield from self.ev(e.value)
        self.env[e.target.id] = v
        return v

    def e_Lambda(self, e):
        return Closure(e, self.fn.module, env=self.chain, cls=None, name="<lambda>")
        yield

    def e_Starred(self, e):
        raise Unsupported("bare starred")
        yield

    # ---- comprehensions -------------------------------------------------------
    def e_GeneratorExp(self, e):
        # the outermost iterable is evaluated eagerly, the rest lazily inside the generator
        first = yield from self.ev(e.generators[0].iter)
        fn = Closure(e, self.fn.module, env=self.chain, cls=self.fn.cls, name="<genexpr>")
        is_async = any(g.is_async for g in e.generators) or _contains_await(e.elt)
        if e.generators[0].is_async:
            first = yield from self.aiter_of(first, e)
        return GenObj(self.i, fn, [], {}, is_async, env={".0": first})

    def comp(self, e, kind):
        first = yield from self.ev(e.generators[0].iter)
        from .builtins_model import SRows
        g0 = e.generators[0]
        if (kind == "list" and len(e.generators) == 1 and not g0.is_async and not g0.ifs and isinstance(e.elt, ast.Name)
                and isinstance(first, SList) and first.seq is not None):
            # pure projection over a symbolic list: summarised as the column itself (no user code can run)
            if isinstance(first, SRows) and isinstance(g0.target, ast.Tuple) and len(g0.target.elts) == len(first.cols):
                names = [t.id if isinstance(t, ast.Name) else None for t in g0.target.elts]
                if e.elt.id in names:
                    return SList(seq=first.cols[names.index(e.elt.id)])
            elif not isinstance(first, SRows) and isinstance(g0.target, ast.Name) and g0.target.id == e.elt.id:
                return SList(seq=first.seq)
        if e.generators[0].is_async:
            first = yield from self.aiter_of(first, e)
        fn = Closure(e, self.fn.module, env=self.chain, cls=self.fn.cls, name=f"<{kind}comp>")
        return (yield from self.i.run_body(fn, [], {}, preenv={".0": first}))

    def e_ListComp(self, e):
        return (yield from self.comp(e, "list"))

    def e_SetComp(self, e):
        return (yield from self.comp(e, "set"))

    def e_DictComp(self, e):
        return (yield from self.comp(e, "dict"))

    def run_comprehension(self, e):
        """body of a comprehension / generator expression, running in its own frame (self)"""
        from .builtins_model import Builder
        if isinstance(e, ast.GeneratorExp):
            acc = None
        else:
            acc = Builder({ast.ListComp: "list", ast.SetComp: "set", ast.DictComp: "dict"}[type(e)])
            self.env[".acc"] = acc

        def level(i):
            if i == len(e.generators):
                if isinstance(e, ast.GeneratorExp):
                    v = yield from self.ev(e.elt)
                    resp = yield Ev("GenYield", self.gen, v, site=site_of(e.elt))
                    if resp is not None and resp[0] == "throw":
                        raise PyRaise(resp[1])
                elif isinstance(e, ast.DictComp):
                    k = yield from self.ev(e.key)
                    v = yield from self.ev(e.value)
                    yield from acc.add(self, (k, v), e)
                else:
                    v = yield from self.ev(e.elt)
                    yield from acc.add(self, v, e)
                return
            g = e.generators[i]
            if i == 0:
                it0 = self.env[".0"]
            else:
                it0 = yield from self.ev(g.iter)
                if g.is_async:
                    it0 = yield from self.aiter_of(it0, e)
            fake = ast.AsyncFor if g.is_async else ast.For
            node = fake(target=g.target, iter=ast.Name(id=".it%d" % i, ctx=ast.Load()), body=[], orelse=[])
            ast.copy_location(node, g.target)
            node.lineno, node.col_offset = g.target.lineno, g.target.col_offset + 10000 * (i + 1)

            def body():
                for cond in g.ifs:
                    c = yield from self.ev(cond)
                    if not self.ctx.branch(to_bool(self.ctx, c)):
                        return
                yield from level(i + 1)
            yield from self.comp_loop(node, g, it0, body)
        yield from level(0)
        if acc is not None:
            return acc.result()
        return None

    def comp_loop(self, node, g, it0, body):
        is_async = bool(g.is_async)
        stop = "StopAsyncIteration" if is_async else "StopIteration"
        if not is_async:
            if isinstance(it0, (Source, GenObj, LazyZip)):
                it = it0
            else:
                it = native_iter(it0)
                if it is None:
                    raise Unsupported(f"comprehension over {it0!r}")
            if isinstance(it, NativeIter) and it.kind == "seq":
                hk = ("for", site_of(node))
                try:
                    while True:
                        self.hidden[hk] = it.idx
                        ok, v = it.next_(self.ctx)
                        if not ok:
                            break
                        yield from self.assign(g.target, v)
                        yield from body()
                finally:
                    self.hidden.pop(hk, None)
                return
        else:
            it = it0
        hk = ("iter", site_of(node))
        self.hidden[hk] = it
        try:
            while True:
                self.cur = node
                yield Ev("LoopHead", node, self, site=site_of(node))
                try:
                    v = yield from self.i.pull(it, site_of(node), sync=not is_async)
                except PyRaise as pr:
                    if pr.exc.cls == stop:
                        break
                    raise
                yield from self.assign(g.target, v)
                yield from body()
        finally:
            self.hidden.pop(hk, None)


def await_kind(aw):
    """C17: what the library awaits - its own coroutines / generator methods, or something the user supplied"""
    if isinstance(aw, Coroutine):
        return "library coroutine"
    if isinstance(aw, (UserAwaitable, EnvAwaitable, Opaque)):
        return "user awaitable"
    if isinstance(aw, Pending):
        if aw.kind.startswith("gen_") or aw.kind == "native_aclose":
            return "library generator method"
        return "user awaitable"
    if isinstance(aw, Obj) and aw.cls is not None and aw.cls.lookup("__await__") is not None:
        return "library awaitable object"
    return "other:" + type(aw).__name__


def _contains_await(node):
    for n in ast.walk(node):
        if isinstance(n, ast.Await):
            return True
    return False


class StarArg:
    """`*v` of a user value in a call: its expansion happens in user code"""
    def __init__(self, v):
        self.v = v

    def __repr__(self):
        return f"*{self.v!r}"
