"""PyVC driver: lock-step relational execution impl vs reference, environment model, lazy cut points with
Houdini-inferred coupling invariants, obligation bookkeeping.  DESIGN.md sections 2.4-2.7."""
import ast
import time
import z3
from .values import *
from .interp import *
from .builtins_model import Builder, SRows


# =====================================================================================
# state walking: shapes (concrete abstraction) and slots (symbolic leaves)
# =====================================================================================
def ctx_eq(a, b):
    """eq term in the canonical argument order used by Ctx.mk_eq"""
    if a.sexpr() > b.sexpr():
        a, b = b, a
    return eq(a, b)


class Slot:
    __slots__ = ("path", "get", "set", "sort")

    def __init__(self, path, get, set_, sort):
        self.path, self.get, self.set, self.sort = path, get, set_, sort


class Walker:
    def __init__(self, erase_lists=False):
        self.ids = {}
        self.slots = []
        self.erase = erase_lists
        self.lists = {}      # ordinal -> (object, length) for concrete all-user-value lists
        self.ints = {}       # path -> (setter, value) for concrete ints that may be widened
        self.int_ok = True

    def oid(self, o):
        k = id(o)
        if k not in self.ids:
            self.ids[k] = len(self.ids)
            return self.ids[k], True
        return self.ids[k], False

    def visit(self, v, path, setter):
        if v is None or isinstance(v, (bool, str)):
            return ("c", repr(v))
        if isinstance(v, int):
            if self.int_ok:
                self.ints[path] = (setter, v)
                if self.erase:
                    return ("int*",)
            return ("int", v)
        if isinstance(v, Opaque):
            self.slots.append(Slot(path, (lambda v=v: v.t), (lambda t, s=setter: s(Opaque(t))), Val))
            return "O"
        if isinstance(v, SInt):
            self.slots.append(Slot(path, (lambda v=v: v.t), (lambda t, s=setter: s(SInt(t))), z3.IntSort()))
            return "I"
        if isinstance(v, SBool):
            self.slots.append(Slot(path, (lambda v=v: v.t), (lambda t, s=setter: s(SBool(t))), z3.BoolSort()))
            return "B"
        if isinstance(v, tuple):
            def mk_set(i, v=v, setter=setter):
                def st(x):
                    cur = list(st.holder[0])
                    cur[i] = x
                    st.holder[0] = tuple(cur)
                    setter(st.holder[0])
                return st
            holder = [v]
            shapes = []
            for i, x in enumerate(v):
                s = mk_set(i)
                s.holder = holder
                shapes.append(self.visit(x, f"{path}.{i}", s))
            return ("t",) + tuple(shapes)
        if isinstance(v, STuple):
            self.slots.append(Slot(path, (lambda v=v: v.seq), (lambda t, s=setter: s(STuple(t))), SeqVal))
            return "TS"
        if isinstance(v, SRows):
            n, new = self.oid(v)
            if not new:
                return ("ref", n)
            for j in range(len(v.cols)):
                def st(t, v=v, j=j):
                    v.cols[j] = t
                    if j == 0:
                        v.seq = t
                self.slots.append(Slot(f"{path}.col{j}", (lambda v=v, j=j: v.cols[j]), st, SeqVal))
            return ("rows", n, len(v.cols))
        if isinstance(v, SList):
            n, new = self.oid(v)
            if not new:
                return ("ref", n)
            if v.seq is not None:
                def st(t, v=v):
                    v.seq = t
                self.slots.append(Slot(path, (lambda v=v: v.seq), st, SeqVal))
                return ("LS", n, v.kind)
            if all(isinstance(x, Opaque) for x in v.items):
                self.lists[n] = (v, len(v.items))
                if self.erase:
                    return ("L*", n, v.kind)
            shapes = []
            for i, x in enumerate(v.items):
                def st(x2, v=v, i=i):
                    v.items[i] = x2
                shapes.append(self.visit(x, f"{path}[{i}]", st))
            return ("L", n, v.kind) + tuple(shapes)
        if isinstance(v, Builder):
            n, new = self.oid(v)
            if not new:
                return ("ref", n)
            if v.seq is not None:
                if isinstance(v.seq, tuple):
                    for j in range(len(v.seq)):
                        def st(t, v=v, j=j):
                            s = list(v.seq)
                            s[j] = t
                            v.seq = tuple(s)
                        self.slots.append(Slot(f"{path}.col{j}", (lambda v=v, j=j: v.seq[j]), st, SeqVal))
                    return ("BS", n, v.kind, len(v.seq))
                def st(t, v=v):
                    v.seq = t
                self.slots.append(Slot(path, (lambda v=v: v.seq), st, SeqVal))
                return ("BS", n, v.kind)
            flat = all(isinstance(x, Opaque) or (isinstance(x, tuple) and all(isinstance(y, Opaque) for y in x)) for x in v.items)
            if flat:
                self.lists[n] = (v, len(v.items))
                if self.erase:
                    return ("B*", n, v.kind)
            shapes = []
            for i, x in enumerate(v.items):
                def st(x2, v=v, i=i):
                    v.items[i] = x2
                shapes.append(self.visit(x, f"{path}[{i}]", st))
            return ("Bd", n, v.kind) + tuple(shapes)
        if isinstance(v, dict):
            n, new = self.oid(v)
            if not new:
                return ("ref", n)
            shapes = []
            for i, k in enumerate(list(v.keys())):
                if isinstance(k, Opaque):
                    # a store keyed by user objects (cache): keys are slots, order is part of the state
                    def stk(x, v=v, i=i):
                        items = list(v.items())
                        items[i] = (x, items[i][1])
                        dict.clear(v)
                        for kk, vv in items:
                            dict.__setitem__(v, kk, vv)
                    def stv(x, v=v, i=i):
                        kk = list(v.keys())[i]
                        dict.__setitem__(v, kk, x)
                    ksh = self.visit(k, f"{path}.key{i}", stk)
                    shapes.append((ksh, self.visit(dict.__getitem__(v, k), f"{path}.val{i}", stv)))
                else:
                    def st(x, v=v, k=k):
                        dict.__setitem__(v, k, x)
                    shapes.append((str(k), self.visit(dict.__getitem__(v, k), f"{path}[{k}]", st)))
            return ("d", n, type(v).__name__) + tuple(shapes)
        if isinstance(v, Obj):
            n, new = self.oid(v)
            if not new:
                return ("ref", n)
            shapes = []
            for k in sorted(v.f):
                def st(x, v=v, k=k):
                    v.f[k] = x
                shapes.append((k, self.visit(v.f[k], f"{path}.{k}", st)))
            return ("obj", n, v.cls.name if v.cls else "?") + tuple(shapes)
        if isinstance(v, InstanceDict):
            return ("idict", self.visit(v.obj, path, lambda x: None))
        if isinstance(v, Source):
            return ("src", getattr(v, "generic", None) or v.name, v.state, v.ended)
        if isinstance(v, GenObj):
            n, new = self.oid(v)
            return ("gen", n, v.fn.name, v.state)
        if isinstance(v, LazyZip):
            return ("lazyzip",) + tuple(self.visit(x, f"{path}.{i}", lambda x2: None) for i, x in enumerate(v.parts))
        if isinstance(v, EnvGen):
            return ("envgen", v.name, v.state)
        if isinstance(v, EnvGenMethod):
            return ("envgenm", v.gen.name, v.name)
        if isinstance(v, UserFn):
            return ("fn", v.name, v.flavour)
        if isinstance(v, UserCM):
            return ("cm", v.name, v.held)
        if isinstance(v, Closure):
            return ("clo", v.name, getattr(v.node, "lineno", 0))
        if isinstance(v, ClassVal):
            return ("cls", v.name)
        if isinstance(v, BoundMethod):
            return ("bm", self.visit(v.obj, path + ".__self__", lambda x: None), getattr(v.fn, "name", "?"))
        if isinstance(v, Partial):
            return ("partial", self.visit(v.fn, path + ".func", lambda x: None),
                    self.visit(tuple(v.args), path + ".args", lambda x, v=v: setattr(v, "args", x)),
                    self.visit(v.kwargs, path + ".kw", lambda x: None))
        if isinstance(v, AwaitifyWrapped):
            return ("awaitify", v.fn.name)
        if isinstance(v, Sentinel):
            return ("sent", v.name)
        if isinstance(v, ExcVal):
            return ("exc", v.cls, str(v.ident))
        if isinstance(v, ExcClass):
            return ("exccls", v.name)
        if isinstance(v, NativeIter):
            n, new = self.oid(v)
            if not new:
                return ("ref", n)
            def st(x, v=v):
                v.idx = x
            if v.kind == "range":
                def st0(x, v=v):
                    v.data = (x, v.data[1])
                def st1(x, v=v):
                    v.data = (v.data[0], x)
                d = (self.visit(v.data[0], path + ".lo", st0), self.visit(v.data[1], path + ".hi", st1))
            elif v.kind in ("zip",):
                d = tuple(self.visit(x, f"{path}.it{i}", lambda x: None) for i, x in enumerate(v.data))
            elif v.kind == "seq":
                seq = v.data.items if isinstance(v.data, SList) else v.data
                if isinstance(v.data, SList):
                    d = self.visit(v.data, path + ".data", lambda x: None)
                else:
                    shapes = []
                    for i, x in enumerate(seq):
                        def sti(x2, v=v, i=i):
                            v.data[i] = x2
                        shapes.append(self.visit(x, f"{path}.data[{i}]", sti))
                    d = tuple(shapes)
            else:
                d = self.visit(v.data, path + ".data", lambda x: None)
            ok = self.int_ok
            self.int_ok = v.kind != "seq"
            try:
                ish = self.visit(v.idx, path + ".idx", st)
            finally:
                self.int_ok = ok
            return ("nit", n, v.kind, ish, d)
        if isinstance(v, UserAwaitable):
            def st(x, v=v):
                v.outcome = (v.outcome[0], x)
            return ("ua", v.outcome[0], self.visit(v.outcome[1], path + ".val", st), v.awaited)
        if isinstance(v, Pending):
            return ("pending", v.kind, self.visit(v.target, path, lambda x: None), v.awaited)
        if isinstance(v, Coroutine):
            return ("coro", v.fn.name, v.started)
        if isinstance(v, Slice3):
            return ("slice", self.visit(v.start, path + ".start", lambda x, v=v: setattr(v, "start", x)),
                    self.visit(v.stop, path + ".stop", lambda x, v=v: setattr(v, "stop", x)),
                    self.visit(v.step, path + ".step", lambda x, v=v: setattr(v, "step", x)))
        if isinstance(v, (Builtin, BuiltinModule)):
            return ("builtin", v.name)
        if isinstance(v, SColl):
            return ("coll", v.kind)
        if isinstance(v, EnvChain):
            return ("envchain",)
        if isinstance(v, StarArg):
            return ("star", self.visit(v.v, path, lambda x: None))
        if isinstance(v, (DictView,)):
            return ("dictview", v.what)
        if isinstance(v, Frame):
            return ("frame", v.name)
        if hasattr(v, "shape_visit"):
            return v.shape_visit(self, path)
        if isinstance(v, list):
            return ("pylist",) + tuple(self.visit(x, f"{path}[{i}]", lambda x2, v=v, i=i: v.__setitem__(i, x2)) for i, x in enumerate(v))
        if isinstance(v, SrcMethod):
            return ("method", "SrcMethod", v.src.name, v.name)
        if isinstance(v, CMMethod):
            return ("method", "CMMethod", v.cm.name, v.name)
        if isinstance(v, GenMethod):
            return ("method", "GenMethod", self.visit(v.gen, path + ".__self__", lambda x: None), v.name)
        if isinstance(v, (ListMethod, DictMethod)):
            return ("method", type(v).__name__, v.name)
        if isinstance(v, (PropertyCall, DescriptorCall)):
            return ("propcall",)
        if isinstance(v, EnvAwaitable):
            return ("envaw", v.name, v.awaited)
        raise Unsupported(f"state walk over {type(v).__name__}")

    def visit_frames(self, interps):
        shapes = []
        for ip in interps:
            counts = {}
            for fr in ip.frames:
                k = counts.get(fr.name, 0)
                counts[fr.name] = k + 1
                tag = f"{ip.side}.{fr.name}" + (f"#{k}" if k else "")
                env_shapes = []
                for name in sorted(fr.env):
                    def st(x, fr=fr, name=name):
                        fr.env[name] = x
                    env_shapes.append((name, self.visit(fr.env[name], f"{tag}.{name}", st)))
                hid = []
                for hk in sorted(fr.hidden, key=repr):
                    def sth(x, fr=fr, hk=hk):
                        fr.hidden[hk] = x
                    self.int_ok = not isinstance(fr.hidden[hk], int)
                    hid.append((repr(hk), self.visit(fr.hidden[hk], f"{tag}.<{hk[0]}{hk[1]}>", sth)))
                    self.int_ok = True
                cur = site_of(fr.cur) if fr.cur is not None else None
                shapes.append((ip.side, fr.name, cur, tuple(env_shapes), tuple(hid),
                               tuple((e.cls, str(e.ident)) for e in fr.exc_stack),
                               fr.gen.state if fr.gen is not None else None))
            roots = getattr(ip, "roots", None)
            if roots:
                rs = []
                for name in sorted(roots):
                    def st(x, roots=roots, name=name):
                        roots[name] = x
                    rs.append((name, self.visit(roots[name], f"{ip.side}.<consumer>.{name}", st)))
                shapes.append((ip.side, "<consumer>", tuple(rs)))
        return tuple(shapes)


# =====================================================================================
# obligations
# =====================================================================================
class Oblig:
    __slots__ = ("name", "kind", "status", "detail", "count", "model", "trace")

    def __init__(self, name, kind):
        self.name, self.kind = name, kind
        self.status = "discharged"
        self.detail = None
        self.count = 0
        self.model = None
        self.trace = None


class JobResult:
    def __init__(self, job):
        self.job = job
        self.obligs = {}
        self.paths = 0
        self.solver_s = 0.0
        self.queries = 0
        self.wall_s = 0.0
        self.rounds = 0
        self.repolls = 0
        self.undecided = None     # reason string when the function is outside the engine's reach
        self.invariants = {}
        self.cover_sites = set()
        self.samples = []

    def record(self, name, kind, ok, detail=None, model=None, trace=None, unknown=False):
        o = self.obligs.get(name)
        if o is None:
            o = self.obligs[name] = Oblig(name, kind)
        o.count += 1
        if not ok and o.status == "discharged":
            o.status = "unknown" if unknown else "failed"
            o.detail, o.model, o.trace = detail, model, trace
        return ok

    @property
    def failed(self):
        return [o for o in self.obligs.values() if o.status != "discharged"]


class Job:
    """one function x one parameter shape.  `mk(ctx, env)` returns dict(iargs, ikw, rargs, rkw)."""
    def __init__(self, name, impl, ref, mk, kind="gen", faults=True, closes=True, props=(), overrides="contract",
                 invariants=None, max_paths=4000, release=True, opts=None, frame_check=True, close_first=False, thorough=False):
        self.name, self.impl, self.ref, self.mk, self.kind = name, impl, ref, mk, kind
        self.faults, self.closes, self.props = faults, closes, tuple(props)
        self.overrides = overrides
        self.invariants = invariants
        self.max_paths = max_paths
        self.release = release
        self.opts = dict(opts or {})
        if thorough:
            self.opts["thorough_only"] = True
        self.close_first = close_first
        self.protocol = self.opts.get("protocol")


class Env:
    """environment handles of one path"""
    def __init__(self, ctx):
        self.ctx = ctx
        self.sources = {}
        self.fns = {}
        self.cms = {}
        self.fault_used = False
        self.faulted = False
        self.consumer_closed = False
        self.gens = {}
        self.ghost = {}
        self.last_key = None
        self.block_exc = {}
        self.trace = []          # (event description, answer description)
        self.vals = {}

    def source(self, name, has_aclose=True, kind="gen"):
        s = Source(name, has_aclose, kind)
        self.sources[name] = s
        return s

    def fn(self, name, flavour="any"):
        if name in self.fns:
            return self.fns[name]
        f = UserFn(name, flavour)
        self.fns[name] = f
        return f

    def cm(self, name, kind="async"):
        if name not in self.cms:
            self.cms[name] = UserCM(name, kind)
        return self.cms[name]

    def val(self, name):
        if name in self.vals:
            return self.vals[name]
        v = Opaque(z3.Const(name, Val))
        self.vals[name] = v
        return v

    def int(self, name, lo=None, hi=None):
        t = z3.Int(name)
        if lo is not None:
            self.ctx.assume(t >= lo)
        if hi is not None:
            self.ctx.assume(t <= hi)
        return SInt(t)


def describe(v):
    if isinstance(v, Opaque):
        return str(v.t)
    if isinstance(v, (SInt, SBool)):
        return str(v.t)
    if isinstance(v, tuple):
        return "(" + ",".join(describe(x) for x in v) + ")"
    if isinstance(v, SList):
        return "[" + ",".join(describe(x) for x in v.items) + "]" if v.seq is None else f"list<{v.seq}>"
    if isinstance(v, STuple):
        return f"tuple<{v.seq}>"
    if isinstance(v, (Source, UserFn, UserCM)):
        return v.name
    if isinstance(v, ExcVal):
        return f"{v.cls}#{v.ident}"
    if isinstance(v, StarArg):
        return "*" + describe(v.v)
    if isinstance(v, SColl):
        return f"{v.kind}<{v.t}>"
    return repr(v)


# =====================================================================================
# verifier
# =====================================================================================
PROTO_NODE = ast.Pass(lineno=-1, col_offset=0)


class Verifier:
    def __init__(self, job, impl_prog, ref_prog, mode="prove", unroll=3, timeout_ms=20000):
        self.job, self.impl_prog, self.ref_prog = job, impl_prog, ref_prog
        self.mode = mode                # 'prove' (cuts) | 'bounded' (unroll, no havoc: every model is genuine)
        self.unroll = unroll
        self.timeout_ms = timeout_ms
        self.cands = {}                 # cut key -> {name: builder}
        self.cut_keys = set()
        self.result = JobResult(job)
        self.sticky = {}     # observations that hold whatever the rest of the run decides (flavour tests)
        self.final = False
        self.changed = False

    # ---------------------------------------------------------------
    def run(self):
        t0 = time.time()
        self.t0 = t0
        self.budget_s = self.job.opts.get("budget_s", 1500)
        res = self.result
        try:
            if self.mode == "prove":
                while True:
                    self.changed = False
                    self.new_keys = False
                    self.final = False
                    self.explore()
                    res.rounds += 1
                    if not self.changed and not self.new_keys:
                        break
                    if res.rounds > 40:
                        raise Budget("houdini rounds")
            self.final = True
            self.result.obligs.clear()
            self.explore()
        except Unsupported as u:
            res.undecided = f"unsupported construct: {u}"
        except Budget as b:
            res.undecided = f"align/budget: {b}"
        for name, detail in self.sticky.items():
            res.record(name, "effect", False, detail=detail)
        res.wall_s = round(time.time() - t0, 3)
        return res

    def explore(self):
        if self.job.opts.get("snapshot") and self.mode == "prove":
            return self.explore_snapshots()
        self.cur_snap = None
        self.owner = {}
        work = [[]]
        n = 0
        while work:
            dec = work.pop()
            n += 1
            if n > self.job.max_paths:
                raise Budget(f"more than {self.job.max_paths} paths")
            if time.time() - self.t0 > self.budget_s:
                raise Budget(f"wall-time budget of {self.budget_s}s for this job exhausted")
            ctx = Ctx(dec, self.job.opts.get("solver_timeout_ms", self.timeout_ms))
            ctx.fresh_mode = bool(self.job.opts.get("fresh_solver"))
            ctx.eq_is_incomparable = bool(self.job.opts.get("eq_is_incomparable"))
            try:
                self.run_path(ctx)
            except (PathEnd, Infeasible):
                pass
            except Diverged as d:
                if self.final or self.mode != "prove":
                    raise Budget(f"decision replay diverged in the final round: {d}")
                self.changed = True
                continue
            finally:
                if self.final:
                    for mod, line, kind in ctx.awaits:
                        self.result.record(f"await-operand/{mod}:L{line}/{kind}", "await-effect", not kind.startswith("other"),
                                           detail=f"{mod}:{line} awaits {kind}")
                self.result.solver_s += ctx.solver_s
                self.result.queries += ctx.queries
                self.result.repolls += getattr(ctx, "repolls", 0)
            work.extend(ctx.pending)
        if self.final:
            self.result.paths = n

    def explore_snapshots_unused(self):
        pass

    def explore_snapshots(self):
        """protocol jobs: every cut point of the consumer loop is explored from a snapshot of its generic state"""
        self.owner = {}
        self.snapshots = {}
        queue = [None]
        n = 0
        while queue:
            snap = queue.pop(0)
            work = [[]]
            while work:
                dec = work.pop()
                n += 1
                if n > self.job.max_paths:
                    raise Budget(f"more than {self.job.max_paths} paths")
                if time.time() - self.t0 > self.budget_s:
                    raise Budget(f"wall-time budget of {self.budget_s}s for this job exhausted")
                ctx = Ctx(dec, self.timeout_ms)
                self.cur_snap = snap
                self.new_snaps = []
                try:
                    self.run_path(ctx)
                except (PathEnd, Infeasible):
                    pass
                except Diverged as d:
                    if self.final:
                        raise Budget(f"decision replay diverged in the final round: {d}")
                    self.changed = True
                    continue
                finally:
                    if self.final:
                        for mod, line, kind in ctx.awaits:
                            self.result.record(f"await-operand/{mod}:L{line}/{kind}", "await-effect", not kind.startswith("other"),
                                               detail=f"{mod}:{line} awaits {kind}")
                    self.result.solver_s += ctx.solver_s
                    self.result.queries += ctx.queries
                work.extend(ctx.pending)
                queue.extend(self.new_snaps)
        if self.final:
            self.result.paths = n

    # ---------------------------------------------------------------
    def setup_modules(self):
        """per-job linking: contract overrides for the _core helpers"""
        prog = self.impl_prog
        for m in prog.modules.values():
            m.overrides.clear()
        if self.job.overrides == "contract":
            core = prog.module("_core")
            core.overrides["aiter"] = Builtin("contract.aiter")
            for mn in ("builtins", "itertools", "heapq", "functools", "asynctools", "contextlib") + tuple(self.job.opts.get("extra_modules", ())):
                m = prog.module(mn)
                for local, (kind, level, target, name) in list(m.imports.items()):
                    if kind == "from" and level >= 1 and target == "_core":
                        if name == "aiter":
                            m.overrides[local] = Builtin("contract.aiter")
                        elif name == "awaitify":
                            m.overrides[local] = Builtin("contract.awaitify")
        if self.job.opts.get("callkey_contract"):
            ck = prog.module("_lrucache").lookup("CallKey")
            ck.attrs["from_call"] = StaticMethod(Builtin("contract.callkey"))
        for mn, names in (self.job.opts.get("module_overrides") or {}).items():
            for k, v in names.items():
                prog.module(mn).overrides[k] = v

    def resolve(self, prog, spec):
        modname, qual = spec
        v = prog.module(modname).lookup(qual.split(".")[0])
        for part in qual.split(".")[1:]:
            owner = v
            v = v.lookup(part) if isinstance(v, ClassVal) else getattr(v, part)
            if isinstance(v, ClassMethod):
                v = BoundMethod(owner, v.fn)
            elif isinstance(v, StaticMethod):
                v = v.fn
        return v

    # ---------------------------------------------------------------
    def run_path(self, ctx):
        job = self.job
        self.setup_modules()
        import pyvc.values as _v
        _v._exc_counter[0] = 0
        env = Env(ctx)
        self.env = env
        opts = dict(job.opts)
        impl_i = Interp(ctx, "impl", opts)
        ref_i = Interp(ctx, "ref", opts)
        self.impl_i, self.ref_i = impl_i, ref_i
        impl_i.env = ref_i.env = env

        class _FT(list):
            def append(s, item, self=self):
                mod, site, what = item
                self.sticky[f"{self.job.name}/flavour-test/{mod}@{self.fmt_site(site)}"] = (
                    f"{mod} inspects the sync/async flavour of a user argument outside _core: {what} "
                    "(sync and async arguments take different code paths)")
        impl_i.flavour_tests = _FT()
        snap = getattr(self, "cur_snap", None)
        restored = None
        if snap is not None:
            restored = snap.restore(env, ctx)
            a = dict(iargs=[], rargs=[])
        else:
            a = job.mk(ctx, env)
        self.skip_cut_once = snap is not None
        impl_fn = self.resolve(self.impl_prog, job.impl)
        ref_fn = self.resolve(self.ref_prog, job.ref) if job.ref is not None else None
        self.open_cuts = {}
        self.cut_repolls = {}
        self.seen_keys = {}
        self.seen_akeys = {}
        self.loop_counts = {}
        self.trace = env.trace

        def start(ip, fn, args, kw):
            if restored is not None:
                r = None
            else:
                try:
                    r = yield from ip.call(fn, args, kw)
                    if isinstance(r, Coroutine):
                        r = yield from ip.await_(r)
                except PyRaise as pr:
                    yield Ev("Done", ("raise", pr.exc))
                    return
            if job.kind == "protocol":
                # an arbitrary history of operations on the returned object (and on handles it hands out);
                # the consumer loop itself is a cut point, so histories are unbounded
                if restored is not None:
                    H = restored[0] if ip.side == "impl" else restored[1]
                else:
                    H = {"self": r}
                    for hname, (ispec, rspec) in (job.opts.get("handles") or {}).items():
                        spec = ispec if ip.side == "impl" else rspec
                        if spec is not None:
                            H[hname] = self.resolve(self.impl_prog if ip.side == "impl" else self.ref_prog, spec)
                ip.roots = H
                proto = job.protocol
                while True:
                    yield Ev("LoopHead", PROTO_NODE, None, site=(-1, 0))
                    ops = tuple(proto.available(H))
                    if not ops:
                        yield Ev("Done", ("return", None))
                        return
                    resp = yield Ev("NextOp", ops)
                    op = resp[1]
                    # the operation in progress is part of the state: what happens after a cut point inside the
                    # operation (a loop of the code under contract) may depend on which operation it is
                    H["<op>"] = op
                    try:
                        res = yield from proto.perform(ip, H, op)
                        out = ("ok", res)
                    except PyRaise as pr:
                        out = ("raise", pr.exc)
                    H.pop("<op>", None)
                    yield Ev("Result", op, out)
            if job.kind != "gen":
                yield Ev("Done", ("return", r))
                return
            # iterate the returned (async) iterator as an endless consumer
            first = True
            while True:
                if first and job.close_first and ip.side == "impl":
                    resp = ("close", None)
                else:
                    try:
                        v = yield from ip.pull(r)
                    except PyRaise as pr:
                        yield Ev("Done", ("raise", pr.exc))
                        return
                    resp = yield Ev("Yielded", v)
                first = False
                if resp is not None and resp[0] == "close":
                    try:
                        if isinstance(r, GenObj):
                            yield from r.aclose()
                        elif isinstance(r, Obj):
                            m = ip.getattr(r, "aclose")
                            c = yield from ip.call(m, [], {})
                            yield from ip.await_(c)
                        elif isinstance(r, Source):
                            yield from ip.aclose_source(r)
                    except PyRaise as pr:
                        yield Ev("Closed", ("raise", pr.exc))
                        return
                    yield Ev("Closed", ("ok", None))
                    return

        impl = start(impl_i, impl_fn, a["iargs"], a.get("ikw", {}))
        if job.ref is None:
            def idle():
                while True:
                    yield Ev("Idle")
            ref = idle()
            ref_i.roots = {}
        else:
            ref = start(ref_i, ref_fn, a["rargs"], a.get("rkw", {}))

        def adv(g, resp, is_impl):
            try:
                ev = g.send(resp)
            except StopIteration:
                return Ev("Finished")
            if not is_impl:
                # the reference parks at its first loop head (alignment with the impl's loop heads)
                if ev.kind == "LoopHead":
                    self.ref_loop(ctx, ev)
                return ev
            k = 0
            while ev.kind == "LoopHead":
                k += 1
                if k > 1 and self.pending_ref.kind == "LoopHead":
                    # keep the reference in step: one loop head of the reference per loop head of the impl
                    try:
                        rev = ref.send(None)
                    except StopIteration:
                        rev = Ev("Finished")
                    if rev.kind == "LoopHead":
                        self.ref_loop(ctx, rev)
                    self.pending_ref = rev
                self.cut(ctx, ev, impl_i, ref_i)
                ev = g.send(None)
            return ev

        def ref_event():
            ev = self.pending_ref
            while ev.kind == "LoopHead":
                try:
                    ev = ref.send(None)
                except StopIteration:
                    ev = Ev("Finished")
                    break
                if ev.kind == "LoopHead":
                    self.ref_loop(ctx, ev)
            self.pending_ref = ev
            return ev

        self.pending_ref = adv(ref, None, False)
        ie = adv(impl, None, True)
        while True:
            # impl-only events: closing sources
            while ie.kind == "AClose":
                self.trace.append(("AClose " + ie.payload[0].name, ""))
                self.on_aclose(ctx, ie)
                ie = adv(impl, None, True)
            if ie.kind == "Closed":
                self.post_close(ctx, ie)
                return
            re_ = ref_event()
            if not self.match(ctx, ie, re_):
                return
            if ie.kind == "Done":
                self.post_done(ctx, ie, re_)
                return
            resp = self.respond(ctx, ie, env)
            if ie.kind == "Yielded" and resp[0] == "close":
                ie = adv(impl, resp, True)
                continue
            self.pending_ref = adv(ref, resp, False)
            ie = adv(impl, resp, True)

    # ---------------------------------------------------------------
    def user_exc_class(self, ctx):
        """class of an injected user failure.  `UserError` (a direct subclass of Exception) stands for every class
        no handler of the code under contract names; while the impl executes the body of a `try` whose handlers
        name ordinary exception classes (AttributeError, KeyError, ...), the failure may be of such a class too."""
        names = []
        for g in getattr(self.impl_i, "guards", ()):
            for n in g:
                if n not in names:
                    names.append(n)
        if not names:
            return "UserError"
        classes = ["UserError"] + sorted(names)
        return classes[ctx.choose(len(classes), "fault class")]

    def respond(self, ctx, ev, env):
        job = self.job
        faults = job.faults and not env.fault_used
        fk = job.opts.get("fault_kinds", ("raise", "cancel"))
        if ev.kind == "Pull":
            src = ev.payload[0]
            if src.state != "closed":
                src.state = "running"
            src.pulls += 1
            if job.opts.get("suspend_at_pull") and job.opts.get("at_suspension"):
                job.opts["at_suspension"](self, ctx, ev)       # the source may suspend: other tasks run here
            opts = ["item", "end"] + (list(fk) if faults else [])
            c = opts[ctx.choose(len(opts), f"pull {src.name}")]
            if c == "item" and getattr(src, "item_kind", None) == "source":
                inner = env.source(f"{src.name}.{src.pulls}", has_aclose=True, kind=src.kind)
                inner.generic = f"{src.name}.*"         # all iterables handed out by this source look alike in state shapes
                self.trace.append((f"pull {src.name}", f"item <iterable {inner.name}>"))
                return ("item", inner)
            if c == "item":
                v = Opaque(ctx.fresh(Val, f"{src.name}{src.pulls}_"))
                if job.opts.get("ghost_tee") and "ghost" in self.impl_i.roots:
                    h = self.impl_i.roots["ghost"]["hist"]
                    if job.opts.get("ghost_lemma"):
                        job.opts["ghost_lemma"](self, ctx, h.to_seq(), z3.Unit(v.t))
                    h.seq = z3.Concat(h.to_seq(), z3.Unit(v.t))         # ghost: the sequence of fetched items
                self.trace.append((f"pull {src.name}", f"item {v.t}"))
                return ("item", v)
            if c == "end":
                src.ended = True
                src.state = "exhausted"
                self.trace.append((f"pull {src.name}", "end"))
                return ("end", None)
            env.fault_used = True
            env.faulted = True
            if c == "raise":
                src.ended = True
                src.state = "closed" if src.kind == "gen" else "raised"
                e = ExcVal(self.user_exc_class(ctx), ident=("src", src.name, src.pulls), origin="env")
            else:
                # cancellation delivered while suspended in the source: the source itself stays open
                e = ExcVal("Cancelled", ident=("cancel-src", src.name, src.pulls), origin="env")
            self.trace.append((f"pull {src.name}", f"raise {e.cls}"))
            return ("raise", e)
        if ev.kind == "Call":
            fn = ev.payload[0]
            if job.opts.get("ghost_cp") and fn.name == "getter" and "ghost" in self.impl_i.roots:
                from pyvc.interp import mk_int, as_int
                g = self.impl_i.roots["ghost"]
                if job.opts.get("cp_lock"):
                    self.prove(ctx, f"{job.name}/getter-runs-at-most-once-per-cached-value", "og-inv", as_int(g["done"]) == 0,
                               detail="the getter is started although a run for this placeholder already completed (the cached value would be computed twice)")
                    self.prove(ctx, f"{job.name}/getter-runs-under-the-lock", "og-inv", any(cm.held > 0 for cm in env.cms.values()),
                               detail="the getter is started without holding the placeholder's lock")
                runner = next((fr.env.get("self") for fr in reversed(self.impl_i.frames) if fr.name == "_get_attribute"), None)
                inst = self.impl_i.roots.get("inst1")
                if inst is not None:
                    self.prove(ctx, f"{job.name}/getter-starts-for-the-published-placeholder", "og-inv", runner is not None and inst.f.get("data") is runner,
                               detail="the getter is started through a placeholder that is not (or no longer) the one stored on the instance: accesses during this run get a different placeholder and a second run starts for the same cached value")
                g["runs"] = mk_int(as_int(g["runs"]) + 1)
            if job.opts.get("ghost_lru") and "ghost" in self.impl_i.roots:
                from pyvc.interp import mk_int, as_int
                g = self.impl_i.roots["ghost"]
                g["invocations"] = mk_int(as_int(g["invocations"]) + 1)      # ghost: the wrapped function is invoked
            opts = ["ret"] + (list(fk) if faults else [])
            c = opts[ctx.choose(len(opts), f"call {fn.name}")] if len(opts) > 1 else "ret"
            d = f"call {fn.name}({','.join(describe(x) for x in ev.payload[1])})"
            if c == "ret":
                kind = job.opts.get("ret_kinds", {}).get(fn.name)
                if kind == "awaitable":
                    v = Opaque(ctx.fresh(Val, f"{fn.name}_result"))
                    aw = EnvAwaitable(f"{fn.name}()#{ctx.evseq}", payload=v)
                    if job.opts.get("ghost_lru"):
                        aw.call_args = tuple(ev.payload[1])
                    self.trace.append((d, f"ret awaitable of {v.t}"))
                    return ("ret", aw)
                if kind == "cm":
                    cmo = env.cm(f"{fn.name}#{len(env.cms)}", "async")
                    self.trace.append((d, f"ret {cmo.name}"))
                    return ("ret", cmo)
                if kind == "envgen":
                    g = EnvGen(f"{fn.name}{len(env.gens)}")
                    env.gens[g.name] = g
                    self.trace.append((d, f"ret {g.name}"))
                    return ("ret", g)
                v = Opaque(ctx.fresh(Val, f"{fn.name}_ret"))
                self.trace.append((d, f"ret {v.t}"))
                return ("ret", v)
            env.fault_used = True
            env.faulted = True
            e = ExcVal(self.user_exc_class(ctx) if c == "raise" else "Cancelled", ident=("call", fn.name, ctx.evseq), origin="env")
            self.trace.append((d, f"raise {e.cls}"))
            return ("raise", e)
        if ev.kind == "Op":
            op, operands = ev.payload
            opts = ["ret"] + (["raise"] if faults else [])
            c = opts[ctx.choose(len(opts), f"op {op}")] if len(opts) > 1 else "ret"
            d = f"op {op}({','.join(describe(x) for x in operands)})"
            if c == "ret":
                if op == "unpack":
                    v = tuple(Opaque(ctx.fresh(Val, "part")) for _ in range(operands[1]))
                elif op == "hash":
                    v = Sentinel("hash")
                else:
                    v = Opaque(ctx.fresh(Val, f"{op}_res"))
                self.trace.append((d, "ok"))
                return ("ret", v)
            env.fault_used = True
            env.faulted = True
            e = ExcVal(self.user_exc_class(ctx), ident=("op", op, ctx.evseq), origin="env")
            self.trace.append((d, f"raise {e.cls}"))
            return ("raise", e)
        if ev.kind == "Yielded":
            opts = ["resume"] + (["close"] if job.closes and not env.fault_used else [])
            c = opts[ctx.choose(len(opts), "consumer")] if len(opts) > 1 else "resume"
            self.trace.append((f"yield {describe(ev.payload[0])}", c))
            if c == "close":
                env.fault_used = True
                env.consumer_closed = True
            return (c, None)
        if ev.kind in ("AwaitVal", "Await"):
            hook = job.opts.get("at_suspension")
            if hook is not None:
                hook(self, ctx, ev)
            opts = ["ret"] + (list(fk) if faults else [])
            c = opts[ctx.choose(len(opts), "await")] if len(opts) > 1 else "ret"
            if c == "ret":
                pl = getattr(ev.payload[0], "payload", None) if ev.kind == "Await" else None
                v = pl if pl is not None else Opaque(ctx.fresh(Val, "awaited"))
                if job.opts.get("ghost_cp") and ev.kind == "Await":
                    from contracts.jobs_cached_property import returned
                    ctx.assume(returned(v.t))
                if job.opts.get("ghost_lru") and getattr(ev.payload[0], "call_args", None):
                    from contracts.jobs_lru import produced
                    ctx.assume(produced(ev.payload[0].call_args[0].t, v.t))
                self.trace.append((f"await {describe(ev.payload[0])}", f"ret {describe(v)}"))
                return ("ret", v)
            env.fault_used = True
            env.faulted = True
            e = ExcVal(self.user_exc_class(ctx) if c == "raise" else "Cancelled", ident=("await", ctx.evseq), origin="env")
            self.trace.append((f"await {describe(ev.payload[0])}", f"raise {e.cls}"))
            return ("raise", e)
        if ev.kind == "SrcOp":
            src, op, arg = ev.payload
            src.state = "running"
            opts = ["item", "end"] + (["raise-same"] if op == "throw" else [])
            c = opts[ctx.choose(len(opts), f"srcop {op}")]
            self.trace.append((f"{op} {src.name}({describe(arg) if arg is not None else ''})", c))
            if c == "item":
                return ("item", Opaque(ctx.fresh(Val, f"{src.name}_{op}_")))
            src.ended = True
            if c == "end":
                src.state = "exhausted"
                return ("end", None)
            src.state = "closed" if src.kind == "gen" else "raised"
            return ("raise", arg)
        if ev.kind == "CM":
            cm, op, args = ev.payload
            hook = job.opts.get("at_suspension")
            if hook is not None:
                hook(self, ctx, ev)
            d = f"{cm.name}.{op}({','.join(describe(x) for x in args)})"
            is_lock = bool(job.opts.get("lock_contract")) and cm.name.startswith("lock")
            if is_lock:
                # lock contract: __aenter__ returns holding the lock (or the waiting task is cancelled: not acquired);
                # __aexit__ releases and returns falsy; neither raises by itself
                if op == "enter":
                    can_cancel = job.faults and not env.fault_used and "cancel" in job.opts.get("fault_kinds", ("raise", "cancel"))
                    c = ["ret", "cancel"][ctx.choose(2, f"lock enter {cm.name}")] if can_cancel else "ret"
                    self.trace.append((d, c))
                    if c == "ret":
                        cm.held += 1
                        return ("ret", Opaque(ctx.fresh(Val, f"{cm.name}_value")))
                    env.fault_used = True
                    env.faulted = True
                    return ("raise", ExcVal("Cancelled", ident=("cancel-at-lock", cm.name, ctx.evseq), origin="env"))
                cm.held -= 1
                self.trace.append((d, "released"))
                return ("ret", False)
            if op == "enter":
                opts = ["ret", "raise"]
                c = opts[ctx.choose(2, f"cm enter {cm.name}")]
                if c == "ret":
                    cm.held += 1
                    v = Opaque(ctx.fresh(Val, f"{cm.name}_value"))
                    self.trace.append((d, f"ret {v.t}"))
                    return ("ret", v)
                e = ExcVal("UserError", ident=("cm-enter", cm.name, ctx.evseq), origin="env")
                self.trace.append((d, "raise UserError"))
                return ("raise", e)
            opts = ["falsy", "truthy", "raise"] + (["cancel"] if job.opts.get("cm_exit_cancel") else [])
            c = opts[ctx.choose(len(opts), f"cm exit {cm.name}")]
            cm.held -= 1
            self.trace.append((d, c))
            if c == "raise":
                return ("raise", ExcVal("UserError2", ident=("cm-exit", cm.name, ctx.evseq), origin="env"))
            if c == "cancel":
                # cancellation delivered while suspended inside the exit (a BaseException, not an Exception)
                return ("raise", ExcVal("Cancelled", ident=("cm-exit-cancel", cm.name, ctx.evseq), origin="env"))
            return ("ret", c == "truthy")
        if ev.kind == "GenOp":
            gen, op, arg = ev.payload
            gen.ops += 1
            tag = f"{gen.name}.{op}#{gen.ops}"
            if gen.state == "done" and op != "throw":
                self.trace.append((f"gen {op}", "stop (finished)"))
                return ("stop", ("finished", gen.name)) if op != "close" else ("ok", None)
            if op in ("next", "send"):
                opts = ["yield", "stop", "raise"]
            elif op == "throw":
                opts = ["yield", "stop", "raise-new", "raise-rt-cause"]
                if not (isinstance(arg, ExcVal) and arg.cls in ("StopIteration", "StopAsyncIteration")):
                    # A3 (PEP 479/525): no Stop(Async)Iteration - thrown in or fresh - can leave a generator as such
                    opts += ["raise-same-type", "raise-same"]
            else:
                opts = ["ok", "raise-ignored", "raise"]
            c = opts[ctx.choose(len(opts), f"gen {op}")]
            self.trace.append((f"gen {gen.name}.{op}({describe(arg) if arg is not None else ''})", c))
            if c == "yield":
                gen.state = "suspended"
                return ("yield", Opaque(ctx.fresh(Val, "genval")))
            gen.state = "done"
            if c == "ok":
                return ("ok", None)
            if c == "stop":
                return ("stop", ("stop", tag))
            if c == "raise-same":
                return ("raise", arg)
            if c == "raise-rt-cause":
                e = ExcVal("RuntimeError", ident=("rt-cause", tag), origin="env")
                e.cause = arg
                e.context = arg
                return ("raise", e)
            if c == "raise-same-type":
                e = ExcVal(arg.cls if isinstance(arg, ExcVal) else "UserError", ident=("same-type", tag), origin="env")
                return ("raise", e)
            if c == "raise-ignored":
                return ("raise", ExcVal("RuntimeError", ident=("ignored GeneratorExit", tag), origin="env"))
            return ("raise", ExcVal("UserError", ident=("gen", tag), origin="env"))
        if ev.kind == "NextOp":
            ops = ev.payload[0]
            c = ctx.choose(len(ops), "op") if len(ops) > 1 else 0
            self.trace.append(("op", ops[c]))
            return ("op", ops[c])
        if ev.kind == "Result":
            k, v = ev.payload[1]
            self.trace.append((f"result {ev.payload[0]}", f"{k} {describe(v)}"))
            return ("resume", None)
        handler = job.opts.get("respond")
        if handler is not None:
            r = handler(self, ctx, ev, env)
            if r is not None:
                return r
        raise Unsupported(f"no environment model for event {ev.kind}")

    # ---------------------------------------------------------------
    def val_eq(self, a, b):
        """equality of observable payloads (object identity for user values) -> z3 Bool / bool"""
        if isinstance(a, Opaque) and isinstance(b, Opaque):
            return a.t == b.t
        if isinstance(a, StarArg) and isinstance(b, StarArg):
            return self.val_eq(a.v, b.v)
        if isinstance(a, SList) and a.seq is None:
            a = tuple(a.items) if not isinstance(b, (SList, STuple)) or (isinstance(b, SList) and b.seq is None) else a
        if isinstance(b, SList) and b.seq is None:
            b = tuple(b.items) if not isinstance(a, (SList, STuple)) else b
        if isinstance(a, (tuple, list)) and isinstance(b, (tuple, list)):
            if len(a) != len(b):
                return False
            parts = [self.val_eq(x, y) for x, y in zip(a, b)]
            if any(p is False for p in parts):
                return False
            parts = [p for p in parts if p is not True]
            return z3.And(parts) if parts else True
        def seq_of(x):
            if isinstance(x, STuple):
                return x.seq
            if isinstance(x, SRows):
                return None
            if isinstance(x, SList):
                return x.to_seq()
            if isinstance(x, (tuple, list)) and all(isinstance(y, Opaque) for y in x):
                return SList(items=list(x)).to_seq()
            return None
        if isinstance(a, (STuple, SList)) or isinstance(b, (STuple, SList)):
            sa, sb = seq_of(a), seq_of(b)
            if sa is None or sb is None:
                return False
            ta = "t" if isinstance(a, (tuple, STuple)) else "l"
            tb = "t" if isinstance(b, (tuple, STuple)) else "l"
            if ta != tb:
                return False
            return sa == sb
        if isinstance(a, SColl) and isinstance(b, SColl):
            return a.t == b.t if a.kind == b.kind else False
        if isinstance(a, bool) or isinstance(b, bool) or isinstance(a, SBool) or isinstance(b, SBool):
            if isinstance(a, (bool, SBool)) and isinstance(b, (bool, SBool)):
                ta = z3.BoolVal(a) if isinstance(a, bool) else a.t
                tb = z3.BoolVal(b) if isinstance(b, bool) else b.t
                return ta == tb
            return False
        if isinstance(a, (SInt, int)) and isinstance(b, (SInt, int)):
            return as_int(a) == as_int(b)
        if a is None and b is None:
            return True
        if (isinstance(a, Opaque) and b is None) or (isinstance(b, Opaque) and a is None):
            o = a if isinstance(a, Opaque) else b
            return o.t == NONE
        if isinstance(a, ExcVal) and isinstance(b, ExcVal):
            return a is b or (a.cls == b.cls and a.origin == "lib" and b.origin == "lib")
        if isinstance(a, ExcClass) and isinstance(b, ExcClass):
            return a.name == b.name
        if isinstance(a, Obj) and isinstance(b, Sentinel):
            return getattr(a, "tag", None) == b.name     # the user's instance, represented by a token in the spec
        if isinstance(a, Sentinel) and isinstance(b, Sentinel):
            return a.name == b.name
        if isinstance(a, dict) and isinstance(b, dict):
            if list(a.keys()) != list(b.keys()):
                return False
            return self.val_eq(tuple(a.values()), tuple(b.values()))
        if isinstance(a, str) and isinstance(b, str):
            return True if a == b or "<fstring>" in (a, b) else False
        return a is b

    def prove(self, ctx, name, kind, f, detail=None):
        """record obligation `name`; returns True iff discharged on this path"""
        if not self.final:
            if f is True:
                return True
            if f is False:
                return False
            ok, _ = ctx.valid(f)
            return ok
        res = self.result
        if f is True:
            return res.record(name, kind, True)
        if f is False:
            import os
            if os.environ.get("PYVC_DEBUG"):
                detail = (detail or "") + " PC-TAIL: " + " ;; ".join(str(x).replace("\n", " ") for x in ctx.pc[-14:]) + f" feasible={ctx.check()}"
            model = None
            if self.mode == "bounded":
                try:
                    if ctx.check() == z3.sat:
                        model = self.model_summary(ctx)
                except Exception:
                    model = None
            res.record(name, kind, False, detail=detail, model=model, trace=list(self.trace))
            self.note_invs(name)
            return False
        ok, r = ctx.valid(f)
        if ok:
            return res.record(name, kind, True)
        model = None
        if r == z3.sat:
            try:
                model = self.model_summary(ctx)
            except Exception:
                model = None
        ok = res.record(name, kind, False, detail=(detail or "") + f" [{r}] not implied: {z3.simplify(f)}",
                        model=model, trace=list(self.trace), unknown=(r == z3.unknown))
        self.note_invs(name)
        return ok

    def note_invs(self, name):
        """remember under which assumed invariants an obligation failed (diagnosis of too-weak invariants)"""
        d = getattr(self.result, "failed_under", None)
        if d is None:
            d = self.result.failed_under = {}
        if name not in d:
            d[name] = [(f"L{k[0][0]} ref@{k[3]}{k[4]}", sorted(self.cands.get(k, {}))) for k in self.open_cuts]

    def model_summary(self, ctx):
        """interpretation of the user-object predicates on the symbols of this path (for native replay)"""
        m = ctx.model()
        syms = list(ctx.val_syms) + [v.t for v in self.env.vals.values()]
        names = [str(x) for x in syms]
        ev = lambda f: z3.is_true(m.eval(f, model_completion=True))
        same = {}
        for i, x in enumerate(syms):
            for j in range(i):
                if ev(x == syms[j]):
                    same[names[i]] = same.get(names[j], names[j])
                    break
        out = {"same": same, "truthy": {}, "lt": {}, "eq": {}, "eq_none": {}, "ints": {}}
        for x, n in zip(syms, names):
            out["truthy"][n] = ev(truthy(x))
            out["eq_none"][n] = ev(ctx_eq(x, NONE))
            out["lt"][n] = {n2: ev(lt(x, y)) for y, n2 in zip(syms, names)}
        for x, n in zip(syms, names):
            for y, n2 in zip(syms, names):
                if n < n2:
                    out["eq"].setdefault(n, {})[n2] = ev(ctx_eq(x, y))
        for d in m.decls():
            if d.arity() == 0 and d.range() == z3.IntSort():
                out["ints"][d.name()] = m[d].as_long()
        return out

    def ev_sites(self, ie, re_):
        # `+fault`: a source/callable/awaitable of the environment has raised earlier on this path (C06/C18 territory)
        tag = "+fault" if getattr(self.env, "faulted", False) else ""
        return f"{ie.kind}@{self.fmt_site(ie.site)}~{re_.kind}@{self.fmt_site(re_.site)}{tag}"

    @staticmethod
    def fmt_site(s):
        return f"L{s[0]}" if s else "-"

    def match(self, ctx, ie, re_):
        job = self.job
        if job.ref is None:
            # no reference: the job states its claims as invariants (protocol.expect), checked after every operation
            if ie.kind == "Finished":
                return False
            ok = True
            if ie.kind == "Result" and hasattr(job.protocol, "expect"):
                for oname, cond, why in job.protocol.expect(self, ie.payload[0], ie.payload[1]):
                    ok &= bool(self.prove(ctx, f"{job.name}/{oname}", "og-inv", cond, detail=why))
            return ok       # a state violating the invariant is not explored further
        nm = f"{job.name}/event-match/{self.ev_sites(ie, re_)}"
        if ie.kind == "Finished" or re_.kind == "Finished":
            return False
        if ie.kind != re_.kind:
            self.prove(ctx, nm, "event-match", False, detail=f"impl does {self.ev_desc(ie)} where the reference does {self.ev_desc(re_)}")
            return False
        if ie.kind == "Done":
            return True      # compared in post_done
        if ie.kind == "Pull":
            f = ie.payload[0] is re_.payload[0]
        elif ie.kind == "Call":
            f = (ie.payload[0] is re_.payload[0])
            if f:
                f = self.val_eq(tuple(ie.payload[1]), tuple(re_.payload[1]))
                if f is not False:
                    ka, kb = dict(ie.payload[2]), dict(re_.payload[2])
                    g = self.val_eq(ka, kb)
                    f = g if f is True else (False if g is False else (f if g is True else z3.And(f, g)))
        elif ie.kind == "Op":
            f = ie.payload[0] == re_.payload[0]
            if f:
                f = self.val_eq(tuple(ie.payload[1]), tuple(re_.payload[1]))
        elif ie.kind == "Yielded":
            f = self.val_eq(ie.payload[0], re_.payload[0])
        elif ie.kind == "SrcOp":
            f = ie.payload[0] is re_.payload[0] and ie.payload[1] == re_.payload[1] and (
                ie.payload[2] is re_.payload[2] or self.val_eq(ie.payload[2], re_.payload[2]) is True)
        elif ie.kind == "CM":
            f = ie.payload[0] is re_.payload[0] and ie.payload[1] == re_.payload[1]
            if f:
                f = self.val_eq(tuple(ie.payload[2]), tuple(re_.payload[2]))
        elif ie.kind == "GenOp":
            f = ie.payload[0] is re_.payload[0] and ie.payload[1] == re_.payload[1]
            if f:
                a, b = ie.payload[2], re_.payload[2]
                f = (a is b) if isinstance(a, ExcVal) or isinstance(b, ExcVal) else self.val_eq(a, b)
        elif ie.kind == "NextOp":
            f = ie.payload[0] == re_.payload[0]
        elif ie.kind == "Result":
            (ik, iv), (rk, rv) = ie.payload[1], re_.payload[1]
            if ik != rk:
                f = False
            elif ik == "ok":
                f = self.val_eq(iv, rv)
            else:
                norm = lambda c: "Stop" if c in ("StopIteration", "StopAsyncIteration") else c
                f = (iv is rv) if (iv.origin == "env" or rv.origin == "env") else (norm(iv.cls) == norm(rv.cls))
        elif ie.kind in ("AwaitVal", "Await"):
            f = self.val_eq(ie.payload[0], re_.payload[0]) if ie.kind == "AwaitVal" else (ie.payload[0] is re_.payload[0])
        else:
            cmpf = job.opts.get("match")
            f = cmpf(self, ie, re_) if cmpf else (ie.payload == re_.payload)
        ok = self.prove(ctx, nm, "event-match", f,
                        detail=f"impl does {self.ev_desc(ie)} where the reference does {self.ev_desc(re_)}")
        if ok and ie.kind == "Result" and hasattr(job.protocol, "expect"):
            for oname, cond, why in job.protocol.expect(self, ie.payload[0]):
                self.prove(ctx, f"{job.name}/{oname}", "frame", cond, detail=why)
        if ok and ie.kind == "Yielded":
            self.check_protocol(ctx, "at-yield")
        return ok

    def ev_desc(self, ev):
        if ev.kind == "Done":
            k, v = ev.payload[0]
            return f"finish({k} {describe(v)})"
        return f"{ev.kind}({', '.join(describe(p) for p in ev.payload)})"

    def check_protocol(self, ctx, where):
        """C03/C19 side conditions collected by the interpreter: user callables invoked only through awaitify
        and awaited at once"""
        job = self.job
        ii = self.impl_i
        for fnname, site in ii.direct_calls:
            self.prove(ctx, f"{job.name}/neutral-call/{fnname}@{self.fmt_site(site)}", "effect", False,
                       detail=f"user callable {fnname} is called without awaitify (async callables would not be awaited)")
        ii.direct_calls.clear()
        if self.final:
            for fnname, site in ii.neutral_calls:
                self.result.record(f"{job.name}/neutral-call/{fnname}@{self.fmt_site(site)}", "effect", True)
        ii.neutral_calls.clear()
        for fnname, site in ii.await_gaps:
            self.prove(ctx, f"{job.name}/await-adjacent/{fnname}@{self.fmt_site(site)}", "effect", False,
                       detail=f"result of user callable {fnname} is awaited only after other events")
        ii.await_gaps.clear()
        if where == "done":
            for ua in ii.unawaited:
                self.prove(ctx, f"{job.name}/awaited/{ua.fn.name if ua.fn else '?'}", "effect", False,
                           detail="result of a user callable is never awaited")

    def on_aclose(self, ctx, ev):
        pass

    def release_check(self, ctx, where):
        job = self.job
        if not job.release:
            return
        for s in self.env.sources.values():
            if not s.has_aclose:
                continue
            ok = s.state in ("exhausted", "closed")
            if s.state == "fresh" and job.opts.get("fresh_ok"):
                ok = True
            self.prove(ctx, f"{job.name}/release/{s.name}/{where}", "release", ok,
                       detail=f"source {s.name} is left {s.state} (neither closed nor exhausted) when the operation {where}")
            if s.closes > 1 and job.opts.get("close_once"):
                self.prove(ctx, f"{job.name}/close-once/{s.name}", "release", False, detail=f"source {s.name} closed {s.closes} times")

    def post_close(self, ctx, ie):
        job = self.job
        k, v = ie.payload[0]
        self.prove(ctx, f"{job.name}/close-total", "release", k == "ok",
                   detail=f"closing the iterator raised {describe(v)}")
        self.release_check(ctx, "is closed by its consumer")
        self.check_protocol(ctx, "closed")
        self.sample(ctx, "closed")

    def post_done(self, ctx, ie, re_):
        job = self.job
        if job.ref is None:
            self.sample(ctx, "done")
            return
        (ik, iv), (rk, rv) = ie.payload[0], re_.payload[0]
        nm = f"{job.name}/outcome-match"
        if ik != rk:
            # an environment exception on one side only: swallowed / invented failure
            envexc = (ik == "raise" and getattr(iv, "origin", None) == "env") or (rk == "raise" and getattr(rv, "origin", None) == "env")
            self.prove(ctx, f"{job.name}/exc-identity" if envexc else nm, "exc-identity" if envexc else "outcome-match", False,
                       detail=f"impl: {self.ev_desc(ie)}; reference: {self.ev_desc(re_)}")
        elif ik == "return":
            self.prove(ctx, nm, "outcome-match", self.val_eq(iv, rv), detail=f"impl returns {describe(iv)}; reference returns {describe(rv)}")
        else:
            norm = lambda c: "Stop" if c in ("StopIteration", "StopAsyncIteration") else c
            if iv.origin == "env" or rv.origin == "env":
                self.prove(ctx, f"{job.name}/exc-identity", "exc-identity", iv is rv,
                           detail=f"impl raises {describe(iv)}; reference raises {describe(rv)}")
            else:
                self.prove(ctx, nm, "outcome-match", norm(iv.cls) == norm(rv.cls),
                           detail=f"impl raises {iv.cls}; reference raises {rv.cls}")
        where = "returns" if ik == "return" else ("is exhausted" if iv.cls.startswith("Stop") else "raises")
        self.release_check(ctx, where)
        self.check_protocol(ctx, "done")
        self.sample(ctx, where)

    def sample(self, ctx, how):
        if self.final and len(self.result.samples) < 6:
            self.result.samples.append({"path": [f"{a} -> {b}" if b else a for a, b in self.trace][:24], "ends": how})

    # ---------------------------------------------------------------
    # cut points
    # ---------------------------------------------------------------
    def ref_loop(self, ctx, ev):
        if self.mode == "bounded":
            k = ("ref", ev.site)
            self.loop_counts[k] = self.loop_counts.get(k, 0) + 1
            if self.loop_counts[k] > self.unroll + 2:
                raise PathEnd()

    def state_key(self, impl_i, ref_i, node_site, erase):
        w = Walker(erase_lists=erase)
        frames = w.visit_frames([impl_i, ref_i])
        srcs = tuple(sorted(set((getattr(s, "generic", None) or s.name, s.state, s.ended) for s in self.env.sources.values())))
        pr = self.pending_ref
        def setp(x, pr=pr):
            pr.payload = x
        psh = w.visit(tuple(pr.payload), "ref.<pending>", setp) if pr.kind not in ("Finished", "LoopHead") else None
        key = (node_site, frames, srcs, pr.kind, pr.site, psh, self.env.fault_used)
        return key, w

    def retain_check(self, ctx, impl_i):
        """C20: at a loop head (every iteration of a streaming tool passes one) the tool holds a fixed number of item
        references in locals, and every container of items obeys the tool's declared window"""
        job = self.job
        if "C20" not in job.props or not self.final:
            return
        window = job.opts.get("window")
        scalars = 0
        seen = set()

        def walk(v, where):
            nonlocal scalars
            if id(v) in seen:
                return
            if isinstance(v, Opaque):
                scalars += 1
                return
            if isinstance(v, (tuple, list)):
                for x in v:
                    walk(x, where)
                return
            seen.add(id(v))
            if isinstance(v, (SList, Builder, STuple)):
                seq = getattr(v, "seq", None)
                if seq is None:
                    for x in (v.items or []):
                        walk(x, where)
                    return
                seqs = list(seq) if isinstance(seq, tuple) else [seq]
                if job.opts.get("accumulates"):
                    return
                for sq in seqs:
                    bound = window(self) if window is not None else 0
                    bound = bound.t if isinstance(bound, SInt) else (bound if z3.is_expr(bound) else z3.IntVal(int(bound)))
                    self.prove(ctx, f"{job.name}/retain/{where}", "retain", z3.Length(sq) <= bound,
                               detail=f"the item container {where} is not bounded by the tool's window: the number of retained items grows with the stream")
                return
            if isinstance(v, Obj):
                for k, x in v.f.items():
                    walk(x, f"{where}.{k}")
            elif isinstance(v, dict):
                for k, x in v.items():
                    walk(x, f"{where}[{k}]")
        for fr in impl_i.frames:
            for name, v in fr.env.items():
                walk(v, f"{fr.name}.{name}")
        self.result.record(f"{job.name}/retain/item-valued-locals<={max(scalars, 1)}", "retain", True)
        self.result.retain_scalars = max(getattr(self.result, "retain_scalars", 0), scalars)

    def cut(self, ctx, ev, impl_i, ref_i):
        site = ev.site
        fr = ev.payload[1] if len(ev.payload) > 1 else None
        if fr is not None and fr.fn.module.modname.startswith("stdlib:"):
            # statically bounded helper loops of interpreted stdlib code (heap sifting over <= arity entries): unrolled
            k = ("stdlib", site)
            self.loop_counts[k] = self.loop_counts.get(k, 0) + 1
            if self.loop_counts[k] > 400:
                raise Budget("stdlib helper loop does not terminate")
            return
        if self.mode == "prove":
            self.retain_check(ctx, impl_i)
        if self.mode == "bounded":
            k = ("impl", site)
            self.loop_counts[k] = self.loop_counts.get(k, 0) + 1
            if self.loop_counts[k] > self.unroll + 1:
                raise PathEnd()
            return
        if site == (-1, 0) and getattr(self, "skip_cut_once", False):
            self.skip_cut_once = False      # this arrival IS the restored cut point
            return
        if site == (-1, 0):
            # consumer loop of a protocol job: every arrival is a cut point; counters are symbolic from the start
            _, wa = self.state_key(impl_i, ref_i, site, True)
            for pth, (setter, val) in wa.ints.items():
                setter(SInt(z3.IntVal(val)))
            if self.job.opts.get("widen_lists"):
                for n_, (obj, ln) in wa.lists.items():
                    if ln > 0:
                        obj.widen()
        key, w = self.state_key(impl_i, ref_i, site, False)
        if site == (-1, 0) and self.job.opts.get("snapshot") and self.mode == "prove":
            if key in self.snapshots:
                self.cut_arrive(ctx, key, w)
                raise PathEnd()
            from .snapshot import Snapshot
            self.cut_enter(ctx, key, w)
            sn = Snapshot(self.env, impl_i.roots, ref_i.roots, ctx, self.trace)
            self.snapshots[key] = sn
            self.new_snaps.append(sn)
            raise PathEnd()
        if key in self.open_cuts:
            self.cut_step(ctx, key, w)
            raise PathEnd()
        do_cut = key in self.cut_keys or key in self.seen_keys or site == (-1, 0)
        if not do_cut:
            akey, wa = self.state_key(impl_i, ref_i, site, True)
            if akey in self.seen_akeys:
                # a list of user values grew since the last arrival: widen it to a symbolic sequence
                old, oldints = self.seen_akeys[akey]
                grew = False
                for n, (obj, ln) in wa.lists.items():
                    if old.get(n) != ln:
                        obj.widen()
                        grew = True
                import os
                if os.environ.get("PYVC_DEBUG"):
                    print("WIDEN at", site, "old", oldints, "new", {k: v[1] for k, v in wa.ints.items()})
                if any(oldints.get(pth) != val for pth, (setter, val) in wa.ints.items()):
                    # widen all concrete ints together: partially widened states lose the relations between them
                    for pth, (setter, val) in wa.ints.items():
                        setter(SInt(z3.IntVal(val)))
                    grew = True
                if grew:
                    key, w = self.state_key(impl_i, ref_i, site, False)
                    if key in self.open_cuts:
                        self.cut_step(ctx, key, w)
                        raise PathEnd()
                    do_cut = True
            else:
                self.seen_akeys[akey] = ({n: ln for n, (obj, ln) in wa.lists.items()},
                                         {pth: val for pth, (st, val) in wa.ints.items()})
        if not do_cut:
            self.seen_keys[key] = True
            cnt = self.loop_counts.get(site, 0) + 1
            self.loop_counts[site] = cnt
            if cnt > 12:
                raise Budget(f"loop at line {site[0]} does not reach a repeating state shape")
            return
        if key not in self.cut_keys:
            self.cut_keys.add(key)
            self.new_keys = True
        # each cut point is explored from its generic (havocked) state by ONE path prefix per round - its owner;
        # any other path arriving there only has to establish the invariant (cut-point induction)
        prefix = tuple(ctx.decisions[:ctx.di])
        own = self.owner.get(key)
        replay = False
        if own is None:
            self.owner[key] = prefix
        elif own != prefix:
            self.cut_arrive(ctx, key, w)
            raise PathEnd()
        else:
            replay = True       # the owner's prefix re-executed for another branch: same state, checks already done
        self.cut_enter(ctx, key, w, replay)

    def filter_valid(self, ctx, formulas):
        """names of the formulas NOT implied by the path condition (model-guided batch refinement)"""
        live = {n: f for n, f in formulas.items() if f is not True}
        bad = set(n for n, f in formulas.items() if f is False)
        for n in bad:
            live.pop(n, None)
        while live:
            r = ctx.check(z3.Not(z3.And(list(live.values()))))
            if r == z3.unsat:
                break
            if r != z3.sat:
                # unknown: fall back to individual checks
                for n, f in list(live.items()):
                    if not ctx.valid(f)[0]:
                        bad.add(n)
                break
            m = ctx.model()
            dropped = False
            for n, f in list(live.items()):
                try:
                    v = m.eval(f, model_completion=True)
                except z3.Z3Exception:
                    v = None
                if v is not None and z3.is_false(v):
                    bad.add(n)
                    del live[n]
                    dropped = True
            if not dropped:
                # model does not falsify any single conjunct decisively: check individually
                for n, f in list(live.items()):
                    if not ctx.valid(f)[0]:
                        bad.add(n)
                break
        return bad

    def check_state_invariant(self, ctx, key, where):
        """object-level declared invariant of the consumer-loop cut (job.opts['state_invariant']): proved on the
        current state; returns False if a clause fails"""
        fn = self.job.opts.get("state_invariant")
        if fn is None:
            return True
        ok = True
        for clause in fn(self):
            name, f = clause[0], clause[1]
            if len(clause) > 2 and clause[2] == "lemma":
                continue        # an arithmetic theorem supplied as a fact (proved once as its own obligation)
            ok &= bool(self.prove(ctx, f"{self.job.name}/inv-declared/{where}/{name}", "inv-declared", f,
                                  detail=f"declared invariant `{name}` does not hold {where}"))
        return ok

    def assume_state_invariant(self, ctx, key):
        fn = self.job.opts.get("state_invariant")
        if fn is None:
            return
        for clause in fn(self):
            f = clause[1]
            if f is False:
                raise Infeasible()
            if f is not True:
                ctx.assume(f)

    def cut_arrive(self, ctx, key, w):
        """arrival at a cut point owned by another path: the invariant must hold here (init), nothing else"""
        if not self.check_state_invariant(ctx, key, "at the cut point"):
            raise PathEnd()
        terms = {s.path: s.get() for s in w.slots}
        cands = self.cands.get(key)
        if cands is None:
            return
        entry = dict(terms)
        fs = {}
        for name in cands:
            if name.endswith(" unchanged") or name.endswith(">= entry"):
                continue        # relative to the entry state: trivially true on arrival
            try:
                fs[name] = cands[name](terms, entry)
            except KeyError:
                fs[name] = False
        for name in self.filter_valid(ctx, fs):
            if name.startswith("declared:"):
                if self.final:
                    self.result.record(f"{self.job.name}/inv-declared/{name}", "inv-declared", False,
                                       detail="declared invariant does not hold on arrival", trace=list(self.trace))
                continue
            if self.final:
                self.result.record(f"{self.job.name}/inv-init/L{key[0][0]}/{name}", "inv-init", False,
                                   detail=f"invariant {name} does not hold on arrival at the cut point", trace=list(self.trace))
            else:
                del cands[name]
                self.changed = True
        if self.final:
            self.result.record(f"{self.job.name}/inv-init/L{key[0][0]}", "inv-init", True)

    def cut_enter(self, ctx, key, w, replay=False):
        if not replay and not self.check_state_invariant(ctx, key, "at the cut point"):
            raise PathEnd()
        slots = w.slots
        terms = {s.path: s.get() for s in slots}
        # duplicate paths (aliases) keep the first
        entry = dict(terms)
        if key not in self.cands:
            cs = self.gen_candidates(ctx, key, slots, terms)
            # cheap pre-filter: candidates false in one model of the path condition cannot be invariants
            if ctx.check() == z3.sat:
                m = ctx.model()
                for name in list(cs):
                    if name.startswith("declared:"):
                        continue
                    try:
                        v = m.eval(cs[name](terms, entry), model_completion=True)
                    except z3.Z3Exception:
                        continue
                    if z3.is_false(v):
                        del cs[name]
            self.cands[key] = cs
        cands = self.cands[key]
        bad = self.filter_valid(ctx, {name: cands[name](terms, entry) for name in cands}) if not (replay and not self.changed) else ()
        for name in bad:
            if name.startswith("declared:"):
                if self.final:
                    self.result.record(f"{self.job.name}/inv-declared/{name}", "inv-declared", False,
                                       detail="declared invariant does not hold on loop entry", trace=list(self.trace))
                continue
            del cands[name]
            self.changed = True
        if self.final:
            self.result.record(f"{self.job.name}/inv-init/L{key[0][0]}", "inv-init", True)
        # havoc
        new_terms = {}
        for s in slots:
            fresh = ctx.fresh(s.sort, "h_" + s.path.split(".")[-1].replace("[", "_").replace("]", ""))
            s.set(fresh)
            new_terms[s.path] = fresh
        ctx.havocked = True
        for name, mk in cands.items():
            ctx.assume(mk(new_terms, entry))
        self.assume_state_invariant(ctx, key)
        self.open_cuts[key] = entry
        self.cut_repolls[key] = dict(getattr(ctx, "repolls_by_side", {"impl": 0, "ref": 0}))
        if self.final:
            self.result.invariants[f"L{key[0][0]}#{len(self.result.invariants)}"] = sorted(cands)

    def cut_step(self, ctx, key, w):
        # A5 tolerates a finished source being polled again, which CPython and the pinned tree both do *once* in places.
        # A loop body that runs from this cut point back to it and polls a finished source more often than the
        # reference does, polls it on EVERY iteration: an unbounded number of pulls the stdlib never makes (C05)
        if self.final and self.job.ref is not None:
            now = getattr(ctx, "repolls_by_side", {"impl": 0, "ref": 0})
            was = self.cut_repolls.get(key, {"impl": 0, "ref": 0})
            extra = (now["impl"] - was["impl"]) - (now["ref"] - was["ref"])
            self.result.record(f"{self.job.name}/repoll/L{key[0][0]}/no-repoll-of-a-finished-source-per-iteration", "repoll", extra <= 0,
                               detail="every iteration of this loop pulls a source that has already ended (the reference does not)", trace=list(self.trace))
        self.check_state_invariant(ctx, key, "at the cut point")
        terms = {s.path: s.get() for s in w.slots}
        entry = self.open_cuts[key]
        cands = self.cands[key]
        allok = True
        fs = {}
        for name in cands:
            try:
                fs[name] = cands[name](terms, entry)
            except KeyError:
                fs[name] = False
        for name in self.filter_valid(ctx, fs):
            allok = False
            if self.final or name.startswith("declared:"):
                if self.final:
                    self.result.record(f"{self.job.name}/inv-step/L{key[0][0]}/{name}", "inv-step", False,
                                       detail=f"invariant {name} is not preserved by the loop body", trace=list(self.trace))
            else:
                del cands[name]
                self.changed = True
        if self.final and allok:
            self.result.record(f"{self.job.name}/inv-step/L{key[0][0]}", "inv-step", True)

    def gen_candidates(self, ctx, key, slots, terms):
        cs = {}
        if self.job.opts.get("declared_only"):
            # the job declares its invariant itself (state_invariant); only frame facts are inferred
            seen = set()
            for s_ in slots:
                if s_.path not in seen and s_.sort != SeqVal:
                    seen.add(s_.path)
                    cs[f"{s_.path} unchanged"] = (lambda t, e, p=s_.path: t[p] == e[p])
            return cs
        paths = []
        seen = set()
        for s in slots:
            if s.path not in seen:
                seen.add(s.path)
                paths.append((s.path, s.sort))
        for i, (p, sp) in enumerate(paths):
            for q, sq in paths[i + 1:]:
                if sp == sq:
                    cs[f"{p} == {q}"] = (lambda t, e, p=p, q=q: t[p] == t[q])
                    if sp == z3.IntSort():
                        for d in (1, -1):
                            cs[f"{p} == {q} + {d}"] = (lambda t, e, p=p, q=q, d=d: t[p] == t[q] + d)
                        cs[f"{p} <= {q}"] = (lambda t, e, p=p, q=q: t[p] <= t[q])
                        cs[f"{p} < {q}"] = (lambda t, e, p=p, q=q: t[p] < t[q])
                        cs[f"{q} <= {p}"] = (lambda t, e, p=p, q=q: t[q] <= t[p])
                        cs[f"{q} < {p}"] = (lambda t, e, p=p, q=q: t[q] < t[p])
                elif sp == z3.IntSort() and sq == SeqVal:
                    cs[f"{p} == len({q})"] = (lambda t, e, p=p, q=q: t[p] == z3.Length(t[q]))
                    cs[f"{p} <= len({q})"] = (lambda t, e, p=p, q=q: z3.And(t[p] >= 0, t[p] <= z3.Length(t[q])))
                elif sq == z3.IntSort() and sp == SeqVal:
                    cs[f"{q} == len({p})"] = (lambda t, e, p=p, q=q: t[q] == z3.Length(t[p]))
                    cs[f"{q} <= len({p})"] = (lambda t, e, p=p, q=q: z3.And(t[q] >= 0, t[q] <= z3.Length(t[p])))
        vs = [p for p, sp in paths if sp == Val]
        if len(vs) <= 14:
            for p in vs:
                cs[f"truthy({p})"] = (lambda t, e, p=p: truthy(t[p]))
                cs[f"not truthy({p})"] = (lambda t, e, p=p: z3.Not(truthy(t[p])))
            for i, p in enumerate(vs):
                for q in vs[i + 1:]:
                    cs[f"{p} eq {q}"] = (lambda t, e, p=p, q=q: ctx_eq(t[p], t[q]))
                    cs[f"not {p} eq {q}"] = (lambda t, e, p=p, q=q: z3.Not(ctx_eq(t[p], t[q])))
                for q in vs:
                    if q != p:
                        cs[f"not {p} lt {q}"] = (lambda t, e, p=p, q=q: z3.Not(lt(t[p], t[q])))
        ints = [p for p, sp in paths if sp == z3.IntSort()]
        seqs = [p for p, sp in paths if sp == SeqVal]
        vals = [p for p, sp in paths if sp == Val]
        if ints and seqs and len(ints) * len(seqs) * len(vals) <= 400:
            for v in vals:
                for q in seqs:
                    for i in ints:
                        for d in (0, 1):
                            cs[f"{v} == {q}[{i}-{d}]"] = (lambda t, e, v=v, q=q, i=i, d=d: z3.And(
                                t[i] - d >= 0, t[i] - d < z3.Length(t[q]), t[v] == t[q][t[i] - d]))
        for p, sp in paths:
            cs[f"{p} unchanged"] = (lambda t, e, p=p: t[p] == e[p])
            if sp == z3.IntSort():
                cs[f"{p} >= entry"] = (lambda t, e, p=p: t[p] >= e[p])
                cs[f"{p} >= 0"] = (lambda t, e, p=p: t[p] >= 0)
                cs[f"{p} >= 1"] = (lambda t, e, p=p: t[p] >= 1)
            if sp == SeqVal:
                cs[f"{p} nonempty"] = (lambda t, e, p=p: z3.Length(t[p]) > 0)
        if self.job.invariants is not None:
            for name, mk in self.job.invariants(key, dict(paths)).items():
                cs["declared:" + name] = mk
        return cs
