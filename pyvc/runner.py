"""Run jobs (in a process pool), summarise obligations in picklable form, attribute them to properties."""
import hashlib
import json
import os
import re
import sys
import time
import ast
import multiprocessing as mp

REPO = os.environ.get("PYVC_REPO", "/repo")
VERIF = os.path.dirname(os.path.dirname(os.path.abspath(__file__)))


def programs(repo=None):
    from .interp import Program
    root = os.path.join(repo or REPO, "asyncstdlib")
    return Program(root, "asyncstdlib"), Program(os.path.join(VERIF, "contracts", "refs"), "refs")


def summarise(res):
    obs = []
    for o in res.obligs.values():
        obs.append({"name": o.name, "kind": o.kind, "status": o.status, "count": o.count,
                    "detail": (o.detail or "")[:1500] if o.detail else None,
                    "model": o.model, "trace": [list(t) for t in (o.trace or [])][-40:] if o.trace else None})
    return {"job": res.job.name, "props": list(res.job.props), "kind": res.job.kind, "impl": list(res.job.impl),
            "functions": [list(x) for x in res.job.opts.get("under_contract", [res.job.impl])],
            "ref": list(res.job.ref) if res.job.ref else None,
            "obligations": obs, "paths": res.paths, "solver_s": round(res.solver_s, 3), "queries": res.queries,
            "wall_s": res.wall_s, "rounds": res.rounds, "repolls": res.repolls, "undecided": res.undecided,
            "invariants": res.invariants, "samples": res.samples, "mode": getattr(res, "mode", "prove")}


def _run_one(args):
    modname, jobname, mode, unroll, repo = args
    sys.setrecursionlimit(20000)
    import importlib
    from .driver import Verifier
    mod = importlib.import_module(modname)
    job = [j for j in mod.jobs() if j.name == jobname][0]
    impl, ref = programs(repo)
    if job.opts.get("impl_root"):
        from .interp import Program
        impl = Program(os.path.join(VERIF, job.opts["impl_root"]), "canary", fallback=os.path.join(repo or REPO, "asyncstdlib"))
    t0 = time.time()
    try:
        jmode = job.opts.get("mode", mode)
        v = Verifier(job, impl, ref, mode=jmode, unroll=job.opts.get("unroll", unroll))
        res = v.run()
        res.mode = jmode
        out = summarise(res)
        if jmode == "bounded":
            for ob in out["obligations"]:
                ob["bounded"] = True
        out["args"] = argspec(job)
        out["opts"] = {"val_protocols": job.opts.get("val_protocols")}
    except Exception as e:      # engine crash: reported as checker error, never as a violation
        import traceback
        out = {"job": jobname, "props": list(job.props), "kind": job.kind, "impl": list(job.impl), "ref": None,
               "obligations": [], "paths": 0, "solver_s": 0, "queries": 0, "wall_s": round(time.time() - t0, 3),
               "rounds": 0, "repolls": 0, "undecided": None, "invariants": {}, "samples": [], "mode": mode,
               "crash": traceback.format_exc()[-3000:]}
    return out


def argspec(job):
    """parameter shape of a job in serialisable form (for the native replay harness)"""
    from .interp import Ctx
    from .driver import Env
    from .values import Source, UserFn, Opaque, SInt
    try:
        ctx = Ctx([])
        a = job.mk(ctx, Env(ctx))
    except Exception:
        return None
    def conv(v):
        if isinstance(v, Source):
            return {"kind": "source", "name": v.name, "has_aclose": v.has_aclose, "src_kind": v.kind}
        if isinstance(v, UserFn):
            return {"kind": "fn", "name": v.name}
        if isinstance(v, Opaque):
            return {"kind": "val", "name": str(v.t)}
        if isinstance(v, SInt):
            return {"kind": "int", "name": str(v.t)}
        if v is None:
            return {"kind": "none"}
        if isinstance(v, (bool, int, str)):
            return {"kind": "const", "value": v}
        return {"kind": "unsupported", "repr": repr(v)}
    return {"iargs": [conv(x) for x in a["iargs"]], "rargs": [conv(x) for x in a["rargs"]],
            "ikw": {k: conv(x) for k, x in a.get("ikw", {}).items()}, "rkw": {k: conv(x) for k, x in a.get("rkw", {}).items()}}


def tree_hash(repo=None):
    """content hash of everything a job result depends on: the working tree's sources, the verifier, the contracts"""
    h = hashlib.sha256()
    roots = [os.path.join(repo or REPO, "asyncstdlib"), os.path.join(VERIF, "pyvc"), os.path.join(VERIF, "contracts")]
    for root in roots:
        for dp, dn, fn in sorted(os.walk(root)):
            dn.sort()
            for f in sorted(fn):
                if f.endswith(".py"):
                    p = os.path.join(dp, f)
                    h.update(p.encode())
                    h.update(open(p, "rb").read())
    return h.hexdigest()[:24]


def _cache_path(th, mode, unroll, jobname):
    base = os.path.join(VERIF, "scratch", "cache")
    d = os.path.join(base, th)
    if not os.path.isdir(d):
        os.makedirs(d, exist_ok=True)
        try:        # keep the cache small: only the four most recently used trees
            import shutil
            dirs = sorted((os.path.join(base, x) for x in os.listdir(base)), key=os.path.getmtime)
            for old in dirs[:-4]:
                shutil.rmtree(old, ignore_errors=True)
        except Exception:
            pass
    safe = re.sub(r"[^A-Za-z0-9_.=-]+", "_", jobname)
    return os.path.join(d, f"{mode}-{unroll}-{safe}.json")


def run_jobs(specs, mode="prove", unroll=3, procs=None, repo=None):
    """specs: list of (module name, job name).  Results are memoised under scratch/cache/<content hash of the
    working tree + verifier + contracts>/: several property checks share the same jobs, and a result is reused only
    for byte-identical sources (PYVC_NO_CACHE=1 disables it)."""
    procs = procs or min(16, os.cpu_count() or 4)
    use_cache = not os.environ.get("PYVC_NO_CACHE")
    th = tree_hash(repo) if use_cache else None
    out = [None] * len(specs)
    todo = []
    for i, (m, j) in enumerate(specs):
        if use_cache:
            cp = _cache_path(th, mode, unroll, j)
            if os.path.exists(cp):
                try:
                    out[i] = json.load(open(cp))
                    out[i]["cached"] = True
                    continue
                except Exception:
                    pass
        todo.append(i)
    args = [(specs[i][0], specs[i][1], mode, unroll, repo) for i in todo]
    if len(args) <= 1 or procs == 1:
        res = [_run_one(a) for a in args]
    else:
        with mp.get_context("fork").Pool(procs) as pool:
            res = pool.map(_run_one, args, chunksize=1)
    for i, r in zip(todo, res):
        out[i] = r
        if use_cache and not r.get("crash"):
            cp = _cache_path(th, mode, unroll, specs[i][1])
            tmp = cp + f".{os.getpid()}.tmp"
            try:
                json.dump(r, open(tmp, "w"), default=str)
                os.replace(tmp, cp)
            except Exception:
                pass
    return out


# --------------------------------------------------------------------------------------------
# attribution of obligations to properties (DESIGN 3: which clause a failed obligation breaks)
# --------------------------------------------------------------------------------------------
REQ = ("Pull", "Call", "Op", "AwaitVal", "Await", "CM", "SrcOp")


def attribute(job, ob):
    """-> set of property ids this obligation is evidence for / a violation of"""
    name, kind = ob["name"], ob["kind"]
    props = set(job["props"])
    is_gen = job["kind"] == "gen"
    out = set()
    if kind == "retain":
        return {"C20"}
    if kind == "og-inv":
        return props
    if kind == "frame":
        return props - {"C17"} or props
    if kind == "await-effect":
        return {"C17"}
    if kind == "kind":
        return {"C03"}
    if kind == "repoll":
        return ({"C05"} & props) or props
    if kind in ("release",):
        out |= {"C04", "C18"} & props
        return out or {"C04"}
    if kind == "exc-identity":
        return ({"C06", "C18"} & props) or {"C06"}
    if kind == "effect":
        if name.startswith("effect/"):
            return {"C17"}
        return {"C03"} | ({"C19"} & props)
    if kind in ("inv-init", "inv-step", "inv-declared"):
        return props - {"C04", "C18", "C20"} | ({"C20"} if "tee[" in job["job"] else set()) or props
    if kind == "outcome-match":
        return ({"C01", "C02", "C19", "C16", "C10", "C13", "C14"} & props) or props
    if kind == "event-match" and "C19" in props:
        return props - {"C04", "C18"}
    if kind == "event-match" and name.endswith("+fault"):
        # after a fault of the environment the two sides must still deliver/raise the same things at the same
        # points (C06: exactly the items the stdlib delivers before failing; never deferred, no further use)
        base = attribute(job, dict(ob, name=name[:-len("+fault")]))
        return base | ({"C06"} & props)
    if kind == "event-match":
        m = re.search(r"/event-match/(\w+)@[^~]*~(\w+)@", name)
        ik, rk = (m.group(1), m.group(2)) if m else ("?", "?")
        if ik == rk == "Result" or "NextOp" in (ik, rk):
            return props - {"C04", "C18"} or props
        if ik == rk and ik == "Yielded":
            return ({"C01", "C19", "C16"} & props) or props
        if ik in ("Done", "Finished") or rk in ("Done", "Finished"):
            if (ik in REQ) or (rk in REQ):
                # one side finished while the other still uses a source/callable
                return ({"C05", "C06"} & props) | ({"C02"} & props if not is_gen else {"C01"} & props)
            return ({"C01", "C02", "C19", "C16"} & props) or props
        if ik == rk == "Op":
            return ({"C02", "C01"} & props) or props
        # request-order / request-argument mismatches
        out = {"C05", "C06"} & props
        if not is_gen and not out:
            out = {"C06"} & props
        return out or props
    return props


def source_hashes(impl_specs, repo=None):
    """sha256 of the source segment of each function under contract (which text was verified)"""
    out = {}
    root = os.path.join(repo or REPO, "asyncstdlib")
    cache = {}
    for modname, qual in impl_specs:
        path = os.path.join(root, modname + ".py")
        if not os.path.exists(path):
            continue
        if path not in cache:
            src = open(path).read()
            cache[path] = (src, ast.parse(src))
        src, tree = cache[path]
        node = None
        body = tree.body
        for part in qual.split("."):
            node = next((n for n in body if isinstance(n, (ast.FunctionDef, ast.AsyncFunctionDef, ast.ClassDef)) and n.name == part
                         and not any(isinstance(d, ast.Name) and d.id == "overload" for d in getattr(n, "decorator_list", []))), None)
            if node is None:
                # aliases such as `tee = Tee`
                for n in body:
                    if isinstance(n, ast.Assign) and isinstance(n.targets[0], ast.Name) and n.targets[0].id == part and isinstance(n.value, ast.Name):
                        node = next((c for c in body if isinstance(c, ast.ClassDef) and c.name == n.value.id), None)
            if node is None:
                break
            body = getattr(node, "body", [])
        if node is not None:
            seg = ast.get_source_segment(src, node) or ""
            out[f"{modname}.{qual}"] = {"sha256": hashlib.sha256(seg.encode()).hexdigest()[:16], "lines": f"{node.lineno}-{node.end_lineno}"}
    return out
