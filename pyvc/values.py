"""Value domain of the PyVC symbolic interpreter (see DESIGN.md section 2.2)."""
import z3

Val = z3.DeclareSort("Val")
truthy = z3.Function("truthy", Val, z3.BoolSort())
lt = z3.Function("lt", Val, Val, z3.BoolSort())
eq = z3.Function("eq", Val, Val, z3.BoolSort())
NONE = z3.Const("None", Val)
SeqVal = z3.SeqSort(Val)
# trusted contract of list.sort / sorted: stable sort of `items` by `keys`
sort_by = z3.Function("sort_by", SeqVal, SeqVal, z3.BoolSort(), SeqVal)
# abstract collections built by ordered insertion (set / dict builders)
set_of = z3.Function("set_of", SeqVal, Val)
dict_of = z3.Function("dict_of", SeqVal, SeqVal, Val)


class Unsupported(Exception):
    """construct outside the interpreted subset: the function is reported undecided"""


class PathEnd(Exception):
    pass


class Infeasible(Exception):
    pass


class Budget(Exception):
    pass


class Diverged(Exception):
    """a replayed decision prefix no longer fits the execution (assumptions changed between rounds)"""


class PyRaise(Exception):
    def __init__(self, exc):
        self.exc = exc  # ExcVal


class ReturnSig(Exception):
    def __init__(self, value):
        self.value = value


class BreakSig(Exception):
    pass


class ContinueSig(Exception):
    pass


EXC_PARENTS = {
    "StopAsyncIteration": "Exception", "StopIteration": "Exception", "TypeError": "Exception",
    "ValueError": "Exception", "KeyError": "LookupError", "IndexError": "LookupError",
    "LookupError": "Exception", "AttributeError": "Exception", "AssertionError": "Exception",
    "RuntimeError": "Exception", "NotImplementedError": "RuntimeError",
    "UserError": "Exception", "UserError2": "Exception", "Exception": "BaseException",
    "GeneratorExit": "BaseException", "Cancelled": "BaseException", "KeyboardInterrupt": "BaseException",
    "UserBaseError": "BaseException",
    "BaseException": None,
}


# classes a user failure may plausibly be an instance of when a handler names them (not the Stop*/exit signals)
ORDINARY_EXC = ("TypeError", "ValueError", "KeyError", "IndexError", "LookupError", "AttributeError", "AssertionError",
                "RuntimeError", "NotImplementedError")


class ExcClass:
    """an exception class as a first-class value"""
    def __init__(self, name):
        self.name = name

    def __repr__(self):
        return f"<class {self.name}>"

    def __eq__(self, o):
        return isinstance(o, ExcClass) and o.name == self.name

    def __hash__(self):
        return hash(("ExcClass", self.name))


_exc_counter = [0]


class ExcVal:
    """an exception instance: class + identity"""
    def __init__(self, cls, ident=None, origin="lib"):
        self.cls = cls
        if ident is None:
            _exc_counter[0] += 1
            ident = ("new", _exc_counter[0])
        self.ident = ident
        self.origin = origin      # 'env' (raised by user code / cancellation) or 'lib'
        self.cause = None
        self.context = None
        self.args = ()

    def __repr__(self):
        return f"<{self.cls}#{self.ident}>"


def exc_isinstance(exc, clsname):
    c = exc.cls
    while c is not None:
        if c == clsname:
            return True
        c = EXC_PARENTS[c]
    return False


def exc_issubclass(c, clsname):
    while c is not None:
        if c == clsname:
            return True
        c = EXC_PARENTS[c]
    return False


# ---- symbolic scalars ---------------------------------------------------------
class Opaque:
    """a user object: z3 term of sort Val"""
    __slots__ = ("t",)

    def __init__(self, term):
        self.t = term

    def __repr__(self):
        return f"O({self.t})"


class SInt:
    __slots__ = ("t",)

    def __init__(self, term):
        self.t = term

    def __repr__(self):
        return f"I({self.t})"


class SBool:
    __slots__ = ("t",)

    def __init__(self, term):
        self.t = term

    def __repr__(self):
        return f"B({self.t})"


class Sentinel:
    """a library-private marker object (instances of _core.Sentinel, object())"""
    def __init__(self, name):
        self.name = name

    def __repr__(self):
        return f"Sentinel({self.name})"


# ---- containers -----------------------------------------------------------------
class SList:
    """mutable sequence (list / deque). Either a concrete spine `items` (python list of values) or,
    when `seq` is not None, a symbolic sequence of user objects (z3 Seq Val)."""
    def __init__(self, items=None, seq=None, kind="list"):
        self.items = items if items is not None else ([] if seq is None else None)
        self.seq = seq
        self.kind = kind

    @property
    def symbolic(self):
        return self.seq is not None

    def to_seq(self):
        if self.seq is not None:
            return self.seq
        if not self.items:
            return z3.Empty(SeqVal)
        parts = []
        for x in self.items:
            if not isinstance(x, Opaque):
                raise Unsupported(f"widening a list holding {x!r}")
            parts.append(z3.Unit(x.t))
        return parts[0] if len(parts) == 1 else z3.Concat(*parts)

    def widen(self):
        if self.seq is None:
            self.seq = self.to_seq()
            self.items = None

    def __repr__(self):
        return f"SList({self.kind},{self.items if self.seq is None else self.seq})"


class STuple:
    """immutable tuple of user objects of symbolic length"""
    def __init__(self, seq):
        self.seq = seq

    def __repr__(self):
        return f"STuple({self.seq})"


class SColl:
    """abstract set/dict value (result of an insertion-ordered builder)"""
    def __init__(self, kind, t):
        self.kind, self.t = kind, t


# ---- environment handles ---------------------------------------------------------
class Source:
    """user (async) iterable/iterator, owned by the environment"""
    def __init__(self, name, has_aclose=True, kind="gen"):
        self.name, self.has_aclose, self.kind = name, has_aclose, kind
        self.state = "fresh"   # fresh/running/exhausted/raised/closed
        self.pulls = 0
        self.closes = 0
        self.ended = False     # answered `end` or raised: finished for every observer

    def __repr__(self):
        return f"Source({self.name},{self.state})"


class UserFn:
    def __init__(self, name, flavour="any"):
        self.name, self.flavour = name, flavour

    def __repr__(self):
        return f"UserFn({self.name})"


class UserCM:
    """user context manager / lock (async)"""
    def __init__(self, name, kind="async"):
        self.name, self.kind = name, kind
        self.held = 0

    def __repr__(self):
        return f"UserCM({self.name})"


class EnvGen:
    """a user (async) generator object seen through its protocol: next / throw / close are environment events"""
    def __init__(self, name):
        self.name = name
        self.state = "fresh"    # fresh / suspended / done
        self.ops = 0

    def __repr__(self):
        return f"EnvGen({self.name},{self.state})"


class UserAwaitable:
    """result of invoking a user callable through the awaitify contract: the Call event was emitted
    at invocation (seq number `at`), value / exception is delivered when awaited"""
    def __init__(self, outcome, at, fn=None):
        self.outcome, self.at, self.fn = outcome, at, fn
        self.awaited = False


class EnvAwaitable:
    """an awaitable supplied by the environment whose await is itself an event"""
    def __init__(self, name, payload=None):
        self.name, self.payload = name, payload
        self.awaited = False


# ---- library-level runtime objects ------------------------------------------------
class Obj:
    def __init__(self, cls):
        self.cls, self.f = cls, {}

    def __repr__(self):
        return f"Obj<{self.cls.name if self.cls else '?'}>"


class Closure:
    def __init__(self, node, module, env=None, cls=None, name=None):
        self.node, self.module, self.env, self.cls = node, module, env, cls
        self.name = name or getattr(node, "name", "<lambda>")
        self.attrs = {}

    def __repr__(self):
        return f"Closure({self.name})"


class BoundMethod:
    def __init__(self, obj, fn):
        self.obj, self.fn = obj, fn

    def __repr__(self):
        return f"BoundMethod({self.obj!r}.{getattr(self.fn, 'name', self.fn)})"


class Coroutine:
    """un-awaited call of a library `async def`"""
    def __init__(self, fn, args, kwargs):
        self.fn, self.args, self.kwargs = fn, args, kwargs
        self.started = False


class Builtin:
    def __init__(self, name):
        self.name = name

    def __repr__(self):
        return f"Builtin({self.name})"


class Partial:
    def __init__(self, fn, args, kwargs):
        self.fn, self.args, self.kwargs = fn, tuple(args), dict(kwargs)


class Property:
    def __init__(self, fget):
        self.fget = fget


class StaticMethod:
    def __init__(self, fn):
        self.fn = fn


class ClassMethod:
    def __init__(self, fn):
        self.fn = fn


class Ev:
    __slots__ = ("kind", "payload", "site")

    def __init__(self, kind, *payload, site=None):
        self.kind, self.payload, self.site = kind, payload, site

    def __repr__(self):
        return f"{self.kind}{self.payload}"
