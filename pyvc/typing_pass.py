"""Judgements over the AST (DESIGN 2.9): result kinds of the public callables (C03), await-effect typing and
event-loop independence (C17).  They are per-function, re-derived from the working tree on every run, and
reported as obligations in the same format as the SMT-backed ones (back end: `syntactic`)."""
import ast
import os


def _result(job, props, obligations, functions):
    return {"job": job, "props": list(props), "kind": "static", "impl": None, "functions": functions, "ref": None,
            "obligations": obligations, "paths": 1, "solver_s": 0.0, "queries": 0, "wall_s": 0.0, "rounds": 0, "repolls": 0,
            "undecided": None, "invariants": {}, "samples": [], "mode": "prove", "synthetic": True}


def _ob(name, kind, ok, detail=None):
    return {"name": name, "kind": kind, "status": "discharged" if ok else "failed", "count": 0, "detail": detail, "model": None, "trace": None}


def load(repo):
    root = os.path.join(repo, "asyncstdlib")
    mods = {}
    for fn in sorted(os.listdir(root)):
        if fn.endswith(".py"):
            src = open(os.path.join(root, fn)).read()
            mods[fn[:-3]] = ast.parse(src)
    return mods


def has_own_yield(node):
    for c in ast.iter_child_nodes(node):
        if isinstance(c, (ast.FunctionDef, ast.AsyncFunctionDef, ast.Lambda, ast.ClassDef)):
            continue
        if isinstance(c, (ast.Yield, ast.YieldFrom)) or has_own_yield(c):
            return True
    return False


def resolve_public(mods):
    """name in asyncstdlib.__all__ -> (module, definition node)"""
    init = mods["__init__"]
    allnames = []
    origin = {}
    for n in init.body:
        if isinstance(n, ast.Assign) and isinstance(n.targets[0], ast.Name) and n.targets[0].id == "__all__":
            allnames = [e.value for e in n.value.elts]
        if isinstance(n, ast.ImportFrom) and n.level == 1:
            for a in n.names:
                origin[a.asname or a.name] = (n.module, a.name)
    out = {}
    for name in allnames:
        mod, nm = origin.get(name, (None, None))
        seen = 0
        while mod is not None and seen < 5:
            seen += 1
            tree = mods[mod]
            found = None
            for n in tree.body:
                if isinstance(n, (ast.FunctionDef, ast.AsyncFunctionDef, ast.ClassDef)) and n.name == nm:
                    if any(isinstance(d, ast.Name) and d.id == "overload" for d in n.decorator_list):
                        continue
                    found = n
                elif isinstance(n, ast.Assign) and isinstance(n.targets[0], ast.Name) and n.targets[0].id == nm and isinstance(n.value, ast.Name):
                    nm2 = n.value.id
                    found = next((c for c in tree.body if isinstance(c, (ast.ClassDef, ast.FunctionDef, ast.AsyncFunctionDef)) and c.name == nm2), None)
                elif isinstance(n, ast.ImportFrom) and n.level == 1:
                    for a in n.names:
                        if (a.asname or a.name) == nm and found is None:
                            found = ("import", n.module, a.name)
            if isinstance(found, tuple):
                mod, nm = found[1], found[2]
                continue
            out[name] = (mod, found)
            break
    return out


def methods(cls):
    return {n.name: n for n in cls.body if isinstance(n, (ast.FunctionDef, ast.AsyncFunctionDef))}


# decorators / factories whose *result* is a callable producing an awaitable etc.: judged through the listed class
DECORATOR_KINDS = {
    "lru_cache": "returns an LRUAsyncCallable (async __call__) or a decorator producing one",
    "cache": "returns an LRUAsyncCallable (async __call__)",
    "cached_property": "returns a CachedProperty descriptor whose __get__ yields an awaitable placeholder",
    "contextmanager": "returns a factory of _AsyncGeneratorContextManager (async context manager)",
    "sync": "returns a coroutine function",
    "borrow": "returns a _BorrowedAsyncIterator (async iterator)",
    "scoped_iter": "returns an async context manager",
    "iter": "returns an async iterator",
}


def kind_of_def(mods, mod, node):
    """-> (ok, description)"""
    if isinstance(node, ast.AsyncFunctionDef):
        return True, "async generator function" if has_own_yield(node) else "coroutine function"
    if isinstance(node, ast.ClassDef):
        ms = methods(node)
        if "__anext__" in ms:
            return True, "async iterator class"
        if "__aenter__" in ms and "__aexit__" in ms:
            return True, "async context manager class"
        if "__aexit__" in ms or node.name in ("ContextDecorator",):
            return True, "async context manager base class"
        if "aclose" in ms and "__aenter__" in ms:
            return True, "async context manager class"
        return False, f"class {node.name} defines neither __anext__ nor __aenter__/__aexit__"
    if isinstance(node, ast.FunctionDef):
        if node.name in DECORATOR_KINDS:
            # every return expression must be a call / a name bound to an async def or a class instance, never a constant
            rets = [r for r in ast.walk(node) if isinstance(r, ast.Return) and r.value is not None]
            bad = [r for r in rets if isinstance(r.value, ast.Constant)]
            if bad:
                return False, f"{node.name} returns a constant at line {bad[0].lineno}"
            return True, DECORATOR_KINDS[node.name]
        return False, f"plain function {node.name} is not known to return an awaitable/async iterator/async context manager"
    return False, "unresolved"


def kind_pass(repo, tier="quick"):
    mods = load(repo)
    pub = resolve_public(mods)
    obs = []
    funcs = []
    for name, (mod, node) in sorted(pub.items()):
        if node is None:
            obs.append(_ob(f"kind/{name}", "kind", False, "definition not found"))
            continue
        ok, desc = kind_of_def(mods, mod, node)
        obs.append(_ob(f"kind/{name}", "kind", ok, f"{mod}.{node.name}: {desc}"))
        funcs.append([mod, node.name])
        # the specific wrappers the decorators rely on must have the awaited kinds
    checks = [
        ("_lrucache", "UncachedLRUAsyncCallable", "__call__", "async"), ("_lrucache", "MemoizedLRUAsyncCallable", "__call__", "async"),
        ("_lrucache", "CachedLRUAsyncCallable", "__call__", "async"), ("asynctools", "_BorrowedAsyncIterator", "__aiter__", "def"),
        ("asynctools", "_ScopedAsyncIteratorContext", "__aexit__", "async"), ("functools", "_FutureCachedPropertyValue", "__await__", "def"),
        ("contextlib", "_AsyncGeneratorContextManager", "__aexit__", "async"), ("_core", "Awaitify", "__call__", "def"),
    ]
    for mod, cls, meth, want in checks:
        c = next((n for n in mods[mod].body if isinstance(n, ast.ClassDef) and n.name == cls), None)
        m = methods(c).get(meth) if c else None
        ok = m is not None and (isinstance(m, ast.AsyncFunctionDef) if want == "async" else isinstance(m, ast.FunctionDef))
        obs.append(_ob(f"kind/{cls}.{meth}", "kind", ok, f"{mod}.{cls}.{meth} must be {'async def' if want == 'async' else 'def'}"))
    return [_result("typing:result-kinds", ("C03",), obs, funcs)]


# ---------------------------------------------------------------------------------------------------
FORBIDDEN_CALLS = {"sleep", "get_event_loop", "get_running_loop", "create_task", "ensure_future", "gather", "wait", "wait_for", "run",
                   "run_in_executor", "to_thread", "Lock", "Event", "Semaphore", "Condition", "Queue", "new_event_loop", "call_soon", "shield"}
ALLOWED_ASYNCIO = {"iscoroutinefunction"}
FORBIDDEN_MODULES = {"threading", "trio", "curio", "anyio", "concurrent", "multiprocessing", "selectors", "socket", "time", "signal"}


def effect_pass(repo, tier="quick"):
    mods = load(repo)
    obs = []
    funcs = []
    for mod, tree in sorted(mods.items()):
        # imports: nothing loop-specific
        for n in ast.walk(tree):
            if isinstance(n, ast.ImportFrom) and n.level == 0 and n.module:
                top = n.module.split(".")[0]
                if top == "asyncio":
                    for a in n.names:
                        obs.append(_ob(f"effect/{mod}/import asyncio.{a.name}@L{n.lineno}", "effect", a.name in ALLOWED_ASYNCIO,
                                       f"{mod} imports asyncio.{a.name}: only {sorted(ALLOWED_ASYNCIO)} are loop independent"))
                elif top in FORBIDDEN_MODULES:
                    obs.append(_ob(f"effect/{mod}/import {n.module}@L{n.lineno}", "effect", False, f"{mod} imports {n.module}"))
            elif isinstance(n, ast.Import):
                for a in n.names:
                    top = a.name.split(".")[0]
                    if top == "asyncio" or top in FORBIDDEN_MODULES:
                        obs.append(_ob(f"effect/{mod}/import {a.name}@L{n.lineno}", "effect", False, f"{mod} imports {a.name} as a module"))
        for n in ast.walk(tree):
            if isinstance(n, ast.Call):
                f = n.func
                nm = f.attr if isinstance(f, ast.Attribute) else (f.id if isinstance(f, ast.Name) else None)
                if nm in FORBIDDEN_CALLS and (isinstance(f, ast.Attribute) and isinstance(f.value, ast.Name) and f.value.id in ("asyncio", "loop", "time")):
                    obs.append(_ob(f"effect/{mod}/call {nm}@L{n.lineno}", "effect", False, f"{mod}:{n.lineno} calls {ast.unparse(f)}"))
                if isinstance(f, ast.Attribute) and f.attr in ("send", "throw") :
                    obs.append(_ob(f"effect/{mod}/manual {f.attr}@L{n.lineno}", "effect", False,
                                   f"{mod}:{n.lineno} drives an awaitable manually with .{f.attr}()"))
        # every `await` sits in an async def; __await__ implementations never execute a bare yield
        for fn in ast.walk(tree):
            if isinstance(fn, ast.FunctionDef) and fn.name == "__await__":
                ok = True
                why = "delegates / returns without yielding"
                for i, st in enumerate(fn.body):
                    if isinstance(st, ast.Return):
                        break
                    if any(isinstance(x, (ast.Yield, ast.YieldFrom)) for x in ast.walk(st)):
                        ok = False
                        why = f"a yield can execute at line {st.lineno}: the library would talk to the event loop itself"
                obs.append(_ob(f"effect/{mod}/__await__@L{fn.lineno}", "effect", ok, why))
                funcs.append([mod, fn.name])
        n_await = sum(1 for n in ast.walk(tree) if isinstance(n, ast.Await))
        obs.append(_ob(f"effect/{mod}/awaits-scanned", "effect", True, f"{n_await} await expressions in {mod}"))
    return [_result("typing:effects", ("C17",), obs, funcs)]
