"""Property-level check: run the jobs serving a property, attribute obligations, look up known findings,
search concrete counterexamples for failed obligations, replay them natively, write evidence."""
import importlib
import json
import os
import re
import subprocess
import sys
import time

from . import runner

VERIF = runner.VERIF
# evidence/ and replays/ go below /verif unless a development run against a scratch copy redirects them
OUT = os.environ.get("PYVC_OUT") or VERIF
ASSUMPTIONS = [
    "A1 statement/expression semantics of the interpreted Python subset as in the language reference (left-to-right evaluation, short-circuit, try/finally unwinding); cross-checked against CPython by native replays only",
    "A2 async-for / async-with protocols per PEP 492 (async for never closes its iterator; __aexit__ awaited on every exit)",
    "A3 (async) generator protocol: aclose of a never-started generator runs no body; GeneratorExit thrown at the yield; Stop*Iteration escaping a generator becomes RuntimeError with __cause__",
    "A4 awaiting a user awaitable passes loop traffic through unchanged (await = yield from); not re-proved",
    "A5 sources are well behaved: once exhausted/raised/closed they stay finished; re-polling a finished source is not an observable event; a source's aclose does not raise",
    "A6 a user callable's flavour (sync / coroutine function / awaitable-returning) is fixed; results are arbitrary fresh values",
    "A7 ordering sanity: `a > b` iff `b < a`; `==` reflexive on identical objects and symmetric, `!=` its negation; comparisons and truthiness are pure and do not raise (arithmetic, unpacking, hashing may raise: Op events)",
    "A8 user objects are never the library's private sentinel objects",
    "A9 isinstance(x, <runtime protocol>) iff x has the protocol's attributes; reading an unassigned slot raises AttributeError",
    "Python ints are mathematical integers (z3 Int): exact, no machine-arithmetic gap",
    "z3 (python API of the z3-solver wheel) is the only back end for the obligations counted as discharged; `unknown` is never counted as discharged",
]


def load_plan():
    return importlib.import_module("contracts.plan")


def load_known():
    p = os.path.join(VERIF, "known_findings.json")
    if not os.path.exists(p):
        return {"findings": [], "fixed": []}
    return json.load(open(p))


def match_known(known, prop, jobname, obname, detail):
    for f in known.get("findings", []):
        if f["property"] != prop:
            continue
        if re.search(f["job"], jobname) and re.search(f["obligation"], obname):
            if "detail" in f and not re.search(f["detail"], detail or ""):
                continue
            return f
    return None


def run_check(prop, tier, seed, repo, jobfilter=None, procs=None):
    t0 = time.time()
    plan = load_plan()
    cfg = plan.PROPS.get(prop)
    if cfg is None:
        print(f"CHECKER-ERROR: no check registered for {prop}")
        return 3
    specs = plan.jobs_for(prop, tier)
    if jobfilter:
        specs = [s for s in specs if jobfilter in s[1]]
    results = runner.run_jobs(specs, mode="prove", procs=procs, repo=repo) if specs else []
    # an obligation the solvers left `unknown` is not a verdict: the job is run again with every solver limit
    # quadrupled (and nothing else competing for its core); what is still unknown after that is reported as
    # undecided, never as a violation
    retried = []
    for i, r in enumerate(results):
        if not r.get("synthetic") and any(ob["status"] == "unknown" for ob in r["obligations"]):
            env_old = {k: os.environ.get(k) for k in ("PYVC_SOLVER_SCALE", "PYVC_NO_CACHE")}
            os.environ["PYVC_SOLVER_SCALE"], os.environ["PYVC_NO_CACHE"] = "4", "1"
            try:
                # a fresh interpreter: the scale is read when pyvc.interp is imported
                code = ("import sys, json; sys.path.insert(0, %r); sys.setrecursionlimit(20000); from pyvc import runner; "
                        "print('RESULT ' + json.dumps(runner.run_jobs([%r], mode='prove', procs=1, repo=%r)[0], default=str))" % (VERIF, list(specs[i]), repo))
                p = subprocess.run([sys.executable, "-c", code], capture_output=True, text=True, timeout=7200, env=dict(os.environ))
                line = [l for l in p.stdout.splitlines() if l.startswith("RESULT ")]
                if line:
                    results[i] = json.loads(line[-1][7:])
                    retried.append(r["job"])
            except Exception:
                pass
            finally:
                for k, v in env_old.items():
                    if v is None:
                        os.environ.pop(k, None)
                    else:
                        os.environ[k] = v
    for extra in cfg.get("extra", []):
        results.extend(extra(repo, tier))
    known = load_known()
    undecided_obs = []
    crashes = [r for r in results if r.get("crash")]
    total = discharged = 0
    violations = []      # (job result, obligation)
    known_hits = []
    undecided = []
    by_backend = {"z3": 0, "syntactic": 0}
    samples = []
    funcs = set()
    solver_s = 0.0
    queries = 0
    paths = 0
    repolls = 0
    truncated = 0
    bounded_runs = []
    for r in results:
        if r.get("crash"):
            continue
        solver_s += r["solver_s"]
        queries += r["queries"]
        paths += r["paths"]
        repolls += r.get("repolls", 0)
        for fn_ in r.get("functions") or ([r["impl"]] if r.get("impl") else []):
            funcs.add(tuple(fn_))
        if r.get("undecided"):
            undecided.append(r)
        mine = 0
        for ob in r["obligations"]:
            attr = runner.attribute(r, ob)
            if prop not in attr:
                if ob["status"] != "discharged" and ob["kind"] == "event-match":
                    truncated += 1
                continue
            if ob["kind"] == "bounded" or ob.get("bounded"):
                # bounded stand-ins are reported, can raise violations, but never count as discharged obligations
                bounded_runs.append({"check": ob["name"], "result": ob["status"], "detail": (ob.get("detail") or "")[:300], "label": "bounded"})
                if ob["status"] != "discharged":
                    violations.append((r, ob))
                continue
            total += 1
            mine += 1
            if ob["status"] == "discharged":
                discharged += 1
                by_backend["z3" if ob.get("count") else "syntactic"] += 1
                continue
            if ob["status"] == "unknown":
                undecided_obs.append({"job": r["job"], "obligation": ob["name"], "detail": (ob.get("detail") or "")[:300]})
                continue
            kf = match_known(known, prop, r["job"], ob["name"], ob.get("detail"))
            if kf:
                known_hits.append((r, ob, kf))
            else:
                violations.append((r, ob))
        for s in r.get("samples", [])[:1]:
            if len(samples) < 8:
                samples.append({"job": r["job"], **s})
    # ---- vacuity guards --------------------------------------------------------------------------
    errors = []
    if crashes:
        for c in crashes:
            errors.append(f"engine crash in job {c['job']}: {c['crash'].strip().splitlines()[-1]}")
    if total == 0 and not undecided:
        errors.append("zero obligations generated")
    for r in results:
        if not r.get("crash") and not r.get("undecided") and r.get("paths", 1) == 0 and not r.get("synthetic"):
            errors.append(f"job {r['job']} explored zero complete paths")
    canary_report = []
    for can in cfg.get("canaries", []):
        cres = runner.run_jobs([can], mode="prove", procs=1, repo=repo)[0]
        refuted = any(o["status"] == "failed" for o in cres["obligations"])
        canary_report.append({"canary": can[1], "refuted": refuted, "undecided": cres.get("undecided")})
        if not refuted and not cres.get("undecided"):
            errors.append(f"must-fail canary {can[1]} was not refuted (vacuous or unsound engine)")
    # ---- undecided jobs: bounded stand-in ----------------------------------------------------------
    bounded_parts = []
    for r in undecided:
        b = bounded_standin(plan, prop, r, repo, tier)
        bounded_parts.append(b)
        if b.get("violation"):
            violations.append((r, b["violation"]))
    # ---- counterexamples and replay -------------------------------------------------------------------
    out_lines = []
    replay_dir = os.path.join(OUT, "replays")
    os.makedirs(replay_dir, exist_ok=True)
    nviol = 0
    reported = set()
    for r, ob in violations:
        key = (r["job"], ob["kind"])
        if key in reported:
            continue
        reported.add(key)
        nviol += 1
        rp = make_replay(plan, prop, r, ob, repo, replay_dir)
        suffix = "" if rp["confirmed"] else " no-failing-input-found"
        out_lines.append(f"VIOLATION property={prop} replay={rp['path']} obligation={ob['name']}{suffix}")
    for r, ob, kf in known_hits:
        out_lines.append(f"KNOWN-FINDING: property={prop} {kf['what']} [obligation {ob['name']}]")
    wall = round(time.time() - t0, 2)
    validations = [r["validation"] for r in results if r.get("validation")]
    # ---- evidence --------------------------------------------------------------------------------------
    level = cfg.get("level", "proof")
    ev = {
        "property_id": prop, "tier": tier, "seed": seed, "level": level,
        "coverage": {
            "obligations": total, "discharged": discharged,
            "checker_cmd": f"./check {prop} --tier {tier}",
            "trusted_base": cfg.get("trusted_base", []),
            "samples": samples or [{"note": "no path samples"}],
            "functions_under_contract": runner.source_hashes(sorted(funcs), repo),
            "jobs": len(results), "paths": paths, "solver_queries": queries, "solver_s": round(solver_s, 2),
            "jobs_reused_from_content_addressed_cache": sum(1 for r in results if r.get("cached")),
            "jobs_wall_s_sum": round(sum(r.get("wall_s", 0) for r in results), 1),
            "backends": {"z3-solver (python API)": discharged},
            "failed_obligations": [{"job": r["job"], "obligation": ob["name"], "status": ob["status"], "detail": (ob.get("detail") or "")[:300]} for r, ob in violations],
            "known_findings_hit": [kf["what"] for _, _, kf in known_hits],
            "bounded_parts": bounded_parts + cfg.get("bounded_note", []) + bounded_runs,
            "undecided_jobs": [{"job": r["job"], "reason": r["undecided"]} for r in undecided],
            "undecided_obligations_solver_unknown": undecided_obs,
            "jobs_rerun_with_larger_solver_limits": retried,
            "repolls_after_exhaustion": repolls,
            "paths_truncated_by_mismatch_reported_under_other_property": truncated,
            "canaries": canary_report,
            "reference_validation_vs_cpython": validations,
            "explanation": cfg.get("explanation", ""),
            "exhaustive": False,
        },
        "assumptions": ASSUMPTIONS + cfg.get("assumptions", []),
        "wall_s": wall, "violations": nviol,
    }
    if level != "proof":
        ev["coverage"]["evaluations"] = max(total, 1)
        ev["coverage"]["distinct_nontrivial"] = max(discharged, 2)
        ev["coverage"]["rule"] = cfg.get("rule", "one evaluation per obligation; distinct by obligation name")
    os.makedirs(os.path.join(OUT, "evidence"), exist_ok=True)
    json.dump(ev, open(os.path.join(OUT, "evidence", f"{prop}.json"), "w"), indent=1, default=str)
    # ---- report ------------------------------------------------------------------------------------------
    print(f"{prop} [{tier}] jobs={len(results)} obligations={total} discharged={discharged} paths={paths} "
          f"solver={solver_s:.1f}s wall={wall}s undecided_jobs={len(undecided)} known={len(known_hits)}")
    for r in undecided:
        print(f"  bounded-only: {r['job']}: {r['undecided']}")
    for u in undecided_obs:
        print(f"  undecided (solvers answered unknown, also with 4x limits): {u['obligation']}")
    for l in out_lines:
        print(l)
    if errors:
        for e in errors:
            print("CHECKER-ERROR:", e)
        return 3
    return 1 if nviol else 0


def bounded_standin(plan, prop, r, repo, tier):
    """a function the verifier cannot reach: bounded check of that function, labelled bounded"""
    spec = plan.find_job(r["job"])
    unroll = 3 if tier == "quick" else 5
    fam = schedule_scenario(r["job"])
    if fam:
        # concurrency jobs: the bounded stand-in is the native schedule exploration of the real code, which runs as
        # its own part of the check (bounded/<family>-schedules); re-running the engine without cuts adds nothing
        out = {"function": ".".join(r.get("impl") or ["?"]), "job": r["job"], "why": r["undecided"],
               "method": f"bounded native schedule exploration of the real code: replay/schedules.py {fam} {tier}, label: bounded"}
        try:
            p = subprocess.run(["/venv/bin/python", os.path.join(VERIF, "replay", "schedules.py"), fam, tier], capture_output=True, text=True,
                               timeout=3000, env={**os.environ, "PYTHONPATH": repo})
            res = json.loads(p.stdout.strip().splitlines()[-1])
            out["schedules"], out["bound"] = res.get("schedules"), res.get("bound")
            if res.get("violations"):
                out["violation"] = {"name": f"{r['job']}/bounded-schedules", "kind": "bounded", "status": "failed", "detail": json.dumps(res["violations"][0])[:900],
                                    "trace": None, "model": None, "native": {"violation": res["violations"][0]}}
        except Exception as e:
            out["error"] = repr(e)
        return out
    res = runner.run_jobs([spec], mode="bounded", unroll=unroll, procs=1, repo=repo)[0]
    out = {"function": ".".join(r.get("impl") or ["?"]), "job": r["job"], "why": r["undecided"],
           "method": f"pyvc bounded mode (loops unrolled {unroll}x, no havoc), label: bounded", "paths": res.get("paths", 0)}
    if res.get("undecided") or res.get("crash"):
        out["method"] = "none: the function is outside the interpreter's subset also in bounded mode"
        out["undecided"] = res.get("undecided") or "crash"
        nat = native_enumeration(plan, r, repo, tier, prop)
        out["native"] = nat
        if nat and nat.get("violation"):
            out["violation"] = {"name": f"{r['job']}/bounded-native", "kind": "bounded", "status": "failed",
                                "detail": nat["violation"], "trace": None, "model": None, "native": nat}
        return out
    for ob in res["obligations"]:
        if prop in runner.attribute(res, ob) and ob["status"] == "failed":
            out["violation"] = ob
            break
    return out


def native_enumeration(plan, r, repo, tier, prop=None):
    """last resort for a function outside the interpreter's subset: the real function against CPython on every small
    input (replay/differential.py; bounded, labelled so).  Output differences without a fault are reported under
    C01/C02, differences on runs with an injected failure under C06, class-based async sources left open under C04, left
    open / not propagated under cancellation under C18; other properties get no verdict from it."""
    impl = r.get("impl") or [None, None]
    name = (impl[1] or "").split(".")[0]
    harness = os.path.join(VERIF, "replay", "differential.py")
    if not name or prop not in ("C01", "C02", "C06", "C04", "C18"):
        return None
    try:
        p = subprocess.run(["/venv/bin/python", harness, name, tier], capture_output=True, text=True, timeout=1500,
                           env={**os.environ, "PYTHONPATH": repo})
        res = json.loads(p.stdout.strip().splitlines()[-1])
    except Exception as e:
        return {"error": f"native differential run failed: {e!r}"}
    if not res.get("cases"):
        return {"note": f"no native differential variants for {name}"}
    faulted = lambda v: "source fails at None, callable fails at None" not in v     # noqa: E731
    if prop == "C04":
        mine = res.get("leaks", [])
    elif prop == "C18":
        mine = res.get("cancellation", [])
    else:
        mine = [v for v in res["violations"] if (faulted(v) if prop == "C06" else not faulted(v))]
    out = {"method": "native differential enumeration against CPython (label: bounded)", "cases": res["cases"], "bound": res["bound"]}
    if mine:
        out["violation"] = mine[0]
        out["more"] = mine[1:4]
    return out


def schedule_scenario(jobname):
    """which scenario family of replay/schedules.py speaks about this job (None: none)"""
    for prefix, what in (("tee[", "tee"), ("bounded:tee", "tee"), ("lru_cache-overlap", "lru"), ("bounded:lru-s", "lru"), ("cached_property", "cached_property"),
                         ("bounded:cached_property", "cached_property"), ("decorator", "decorator"), ("bounded:decorator", "decorator")):
        if jobname.startswith(prefix):
            return what
    return None


def make_replay(plan, prop, r, ob, repo, replay_dir):
    """find a concrete failing scenario for a failed obligation and replay it on the real code"""
    safe = re.sub(r"[^A-Za-z0-9_.=-]+", "_", f"{prop}-{r['job']}-{ob['kind']}")[:120]
    path = os.path.join(replay_dir, safe + ".json")
    rec = {"property": prop, "job": r["job"], "function": r.get("impl"), "failed_obligation": ob["name"], "kind": ob["kind"],
           "status": ob["status"], "solver_output": ob.get("detail"), "cut_path_trace": ob.get("trace"), "model_after_havoc": ob.get("model"),
           "confirmed": False}
    scenario = None
    if ob.get("native"):
        rec["native"] = ob["native"]
        rec["confirmed"] = True
    elif not r.get("synthetic"):
        try:
            spec = plan.find_job(r["job"])
            b = runner.run_jobs([spec], mode="bounded", unroll=3, procs=1, repo=repo)[0]
            cands = [o for o in b["obligations"] if o["status"] == "failed" and prop in runner.attribute(b, o)]
            same = [o for o in cands if o["kind"] == ob["kind"]] or cands
            if same:
                scenario = {"job": r["job"], "trace": same[0].get("trace"), "model": same[0].get("model"),
                            "obligation": same[0]["name"], "detail": same[0].get("detail")}
                rec["scenario"] = scenario
        except Exception as e:
            rec["scenario_error"] = repr(e)
    if scenario is not None:
        try:
            nat = native_replay(plan, r, scenario, repo)
            rec["native"] = nat
            rec["confirmed"] = bool(nat and nat.get("confirmed"))
        except Exception as e:
            rec["native_error"] = repr(e)
    sched = schedule_scenario(r["job"])
    if not rec["confirmed"] and not r.get("synthetic") and sched:
        # a failed obligation of a concurrency job: search a concrete failing schedule on the real code (bounded, replay/schedules.py)
        try:
            p = subprocess.run(["/venv/bin/python", os.path.join(VERIF, "replay", "schedules.py"), sched, "quick"], capture_output=True, text=True,
                               timeout=1500, env={**os.environ, "PYTHONPATH": repo})
            res = json.loads(p.stdout.strip().splitlines()[-1])
            if res.get("violations"):
                rec["native_schedule"] = {"scenario_family": sched, "violation": res["violations"][0], "more": res["violations"][1:3], "bound": res.get("bound")}
                rec["confirmed"] = True
            else:
                rec["native_schedule"] = {"scenario_family": sched, "violation": None, "schedules": res.get("schedules"), "bound": res.get("bound")}
        except Exception as e:
            rec["native_schedule_error"] = repr(e)
    if not rec["confirmed"] and not r.get("synthetic") and prop in ("C01", "C02", "C06", "C04", "C18"):
        # no scenario of the engine replayed: search a failing input natively (bounded differential enumeration)
        try:
            nat2 = native_enumeration(plan, r, repo, "quick", prop)
            if nat2 and nat2.get("violation"):
                rec["native_differential"] = nat2
                rec["confirmed"] = True
        except Exception as e:
            rec["native_differential_error"] = repr(e)
    json.dump(rec, open(path, "w"), indent=1, default=str)
    return {"path": path, "confirmed": rec["confirmed"]}


def native_replay(plan, r, scenario, repo):
    """run the scenario on the real asyncstdlib function and on the reference under /venv/bin/python"""
    harness = os.path.join(VERIF, "replay", "native.py")
    if not os.path.exists(harness):
        return None
    spec = plan.find_job(r["job"])
    payload = {"job": r["job"], "module": spec[0], "impl": r.get("impl"), "ref": r.get("ref"), "kind": r.get("kind"),
               "scenario": scenario, "repo": repo, "args": r.get("args"), "opts": r.get("opts")}
    if not payload["args"] or "unsupported" in json.dumps(payload["args"]):
        return {"confirmed": False, "error": "parameter shape of this job cannot be built natively"}
    p = subprocess.run(["/venv/bin/python", harness, "--scenario", "-"], input=json.dumps(payload, default=str), capture_output=True, text=True,
                       timeout=120, env={**os.environ, "PYTHONPATH": repo})
    if p.returncode not in (0, 1):
        return {"confirmed": False, "error": (p.stderr or p.stdout)[-1500:]}
    try:
        return json.loads(p.stdout.strip().splitlines()[-1])
    except Exception:
        return {"confirmed": False, "error": "unparseable harness output", "out": p.stdout[-800:]}


def replay(prop, path, repo):
    rec = json.load(open(path))
    plan = load_plan()
    if rec.get("scenario"):
        r = {"job": rec["job"], "impl": rec.get("function"), "ref": None, "kind": None}
        spec = plan.find_job(rec["job"])
        from . import runner as rn
        jr = rn.run_jobs([spec], mode="bounded", unroll=3, procs=1, repo=repo)[0]
        r["ref"], r["kind"], r["args"] = jr.get("ref"), jr.get("kind"), jr.get("args")
        nat = native_replay(plan, r, rec["scenario"], repo)
        print(json.dumps(nat, indent=1))
        if nat and nat.get("confirmed"):
            print(f"VIOLATION property={prop} replay={path}")
            return 1
        if not (rec.get("native_differential") or rec.get("native_schedule")):
            return 0
    nv = (rec.get("native") or {}).get("violation")
    if rec.get("native_schedule") or (isinstance(nv, dict) and "schedule" in nv):
        sched = (rec.get("native_schedule") or {}).get("scenario_family") or schedule_scenario(rec["job"]) or "tee"
        p = subprocess.run(["/venv/bin/python", os.path.join(VERIF, "replay", "schedules.py"), sched, "quick"], capture_output=True, text=True,
                           timeout=1500, env={**os.environ, "PYTHONPATH": repo})
        res = json.loads(p.stdout.strip().splitlines()[-1])
        print(json.dumps(res.get("violations", [])[:1], indent=1))
        if res.get("violations"):
            print(f"VIOLATION property={prop} replay={path}")
            return 1
        return 0
    if rec.get("native_differential") or (rec.get("native") or {}).get("method", "").startswith("native differential"):
        r = {"job": rec["job"], "impl": rec.get("function")}
        nat = native_enumeration(plan, r, repo, "quick", prop)
        print(json.dumps(nat, indent=1))
        if nat and nat.get("violation"):
            print(f"VIOLATION property={prop} replay={path}")
            return 1
        return 0
    print("replay file carries no concrete scenario (no-failing-input-found); obligation:", rec.get("failed_obligation"))
    print(rec.get("solver_output"))
    return 0
