"""Models of the Python builtins / stdlib helpers the library uses (trusted contracts, DESIGN 2.3)."""
import ast
import z3
from .values import *
from .interp import (to_bool, as_int, mk_int, mk_bool, identical, native_iter, NativeIter, ClassVal, GenObj,
                     AwaitifyWrapped, Slice3, InstanceDict, DictView, site_of, Pending, AwaitIter, CoroAwaitMethod,
                     StarArg, BuiltinModule, PropertyCall)

ABC_ATTR = {
    "typing.AsyncIterable": ("__aiter__",), "typing.AsyncIterator": ("__aiter__", "__anext__"),
    "typing.Awaitable": ("__await__",), "typing.ACloseable": ("aclose",), "ACloseable": ("aclose",),
    "typing.Iterable": ("__iter__",), "typing.AsyncGenerator": ("__aiter__", "__anext__", "asend", "athrow", "aclose"),
    "typing.AsyncContextManager": ("__aenter__", "__aexit__"), "typing.Coroutine": ("__await__", "send", "throw"),
    "typing.Hashable": ("__hash__",),
}


def has_protocol(interp, v, attrs):
    """A9: isinstance(x, <runtime protocol/ABC>) <=> x has the protocol's attributes"""
    if isinstance(v, Source):
        have = {"__aiter__", "__anext__"} | ({"aclose"} if v.has_aclose else set()) | ({"asend", "athrow"} if v.kind == "gen" else set()) | ({"athrow"} if v.kind == "throwonly" else set())
        if v.kind == "sync":
            have = {"__iter__", "__next__"}
        return all(a in have for a in attrs)
    if isinstance(v, GenObj):
        have = ({"__aiter__", "__anext__", "aclose", "asend", "athrow"} if v.is_async else {"__iter__", "__next__", "close", "send", "throw"})
        return all(a in have for a in attrs)
    if isinstance(v, Obj):
        def has(a):
            if v.cls.lookup(a) is not None:
                return True
            if a == "__aiter__" and v.cls.lookup("__anext__") is not None:
                return True     # AsyncIterator mixin
            return a in v.f
        return all(has(a) for a in attrs)
    if isinstance(v, (Coroutine, UserAwaitable, EnvAwaitable, Pending)):
        return all(a in ("__await__", "send", "throw") for a in attrs)
    if isinstance(v, (tuple, list, SList, STuple, dict, NativeIter)):
        return all(a in ("__iter__",) for a in attrs)
    if isinstance(v, UserCM):
        return all(a in (("__aenter__", "__aexit__") if v.kind == "async" else ("__enter__", "__exit__")) for a in attrs)
    if v is None or isinstance(v, (int, str, bool, Sentinel, UserFn, SInt, SBool)):
        return False
    if isinstance(v, Opaque):
        # the job's contract says which protocols user values implement (enumerated shape)
        vp = interp.opts.get("val_protocols", {})
        if all(a in vp for a in attrs):
            return all(vp[a] for a in attrs)
        raise Unsupported(f"protocol test {attrs} on a user value")
    return False


def rich_compare(interp, op, l, r, site):
    """generator: `l op r` for <,>,<=,>=,==,!="""
    ctx = interp.ctx
    if isinstance(l, Opaque) and isinstance(r, Opaque):
        if isinstance(op, ast.Lt):
            return mk_bool(ctx.mk_lt(l.t, r.t))
        if isinstance(op, ast.Gt):      # A7: a > b  <=>  b < a
            return mk_bool(ctx.mk_lt(r.t, l.t))
        if isinstance(op, ast.Eq):
            return mk_bool(ctx.mk_eq(l.t, r.t))
        if isinstance(op, ast.NotEq):
            return mk_bool(z3.Not(ctx.mk_eq(l.t, r.t)))
        raise Unsupported(f"user comparison {type(op).__name__}")
    if isinstance(l, Opaque) or isinstance(r, Opaque):
        o, other = (l, r) if isinstance(l, Opaque) else (r, l)
        if other is None and isinstance(op, (ast.Eq, ast.NotEq)):
            e = ctx.mk_eq(o.t, NONE)
            return mk_bool(e if isinstance(op, ast.Eq) else z3.Not(e))
        if isinstance(other, Sentinel) and isinstance(op, (ast.Eq, ast.NotEq)):
            return isinstance(op, ast.NotEq)
        raise Unsupported(f"comparison of user value with {other!r}")
    if isinstance(l, Obj) and isinstance(r, Obj):
        name = {ast.Lt: "__lt__", ast.Gt: "__gt__", ast.Eq: "__eq__", ast.NotEq: "__ne__", ast.LtE: "__le__", ast.GtE: "__ge__"}[type(op)]
        m = l.cls.lookup(name)
        if m is not None:
            return (yield from interp.call(m, [l, r], {}))
        refl = {"__gt__": "__lt__", "__lt__": "__gt__", "__ge__": "__le__", "__le__": "__ge__"}.get(name)
        if refl and r.cls.lookup(refl) is not None:
            return (yield from interp.call(r.cls.lookup(refl), [r, l], {}))
        if name == "__eq__":
            return l is r
        if name == "__ne__":
            m = l.cls.lookup("__eq__")
            if m is not None:
                v = yield from interp.call(m, [l, r], {})
                b = to_bool(ctx, v)
                return (not b) if isinstance(b, bool) else mk_bool(z3.Not(b))
            return l is not r
        raise PyRaise(ExcVal("TypeError", ident=("unorderable", name)))
    if isinstance(l, tuple) and isinstance(r, tuple):
        return (yield from tuple_compare(interp, op, l, r, site))
    if isinstance(l, SList) and isinstance(r, SList) and l.seq is None and r.seq is None:
        return (yield from tuple_compare(interp, op, tuple(l.items), tuple(r.items), site))
    if isinstance(l, str) and isinstance(r, str):
        if isinstance(op, ast.Eq):
            return l == r
        if isinstance(op, ast.NotEq):
            return l != r
    if isinstance(l, (ClassVal, ExcClass, Sentinel, Builtin)) or isinstance(r, (ClassVal, ExcClass, Sentinel, Builtin)) or l is None or r is None:
        if isinstance(op, ast.Eq):
            return mk_bool(identical(l, r))
        if isinstance(op, ast.NotEq):
            b = identical(l, r)
            return (not b) if isinstance(b, bool) else mk_bool(z3.Not(b))
    li, ri = as_int(l), as_int(r)
    t = {ast.Lt: li < ri, ast.LtE: li <= ri, ast.Gt: li > ri, ast.GtE: li >= ri,
         ast.Eq: li == ri, ast.NotEq: li != ri}[type(op)]
    return mk_bool(t)


def tuple_compare(interp, op, l, r, site):
    """python tuple comparison: first `==`-differing component decides"""
    ctx = interp.ctx
    n = min(len(l), len(r))
    for i in range(n):
        e = yield from rich_compare(interp, ast.Eq(), l[i], r[i], site)
        if not ctx.branch(to_bool(ctx, e)):
            if isinstance(op, ast.Eq):
                return False
            if isinstance(op, ast.NotEq):
                return True
            return (yield from rich_compare(interp, op, l[i], r[i], site))
    import operator
    f = {ast.Lt: operator.lt, ast.LtE: operator.le, ast.Gt: operator.gt, ast.GtE: operator.ge,
         ast.Eq: operator.eq, ast.NotEq: operator.ne}[type(op)]
    return f(len(l), len(r))


class Builder:
    """accumulator of a list/set/dict comprehension"""
    def __init__(self, kind):
        self.kind = kind
        self.items = []
        self.seq = None      # symbolic once widened

    def add(self, frame, v, node):
        if self.kind in ("set", "dict"):
            k = v[0] if self.kind == "dict" else v
            if isinstance(k, Opaque):
                # hashing a user object happens in user code and may raise
                resp = yield Ev("Op", "hash", (k,), site=site_of(node))
                frame.ctx.evseq += 1
                if resp[0] != "ret":
                    raise PyRaise(resp[1])
        if self.seq is not None:
            if self.kind == "dict":
                self.seq = (z3.Concat(self.seq[0], z3.Unit(v[0].t)), z3.Concat(self.seq[1], z3.Unit(v[1].t)))
            elif isinstance(v, tuple):
                self.seq = tuple(z3.Concat(s, z3.Unit(x.t)) for s, x in zip(self.seq, v))
            else:
                self.seq = z3.Concat(self.seq, z3.Unit(v.t))
        else:
            self.items.append(v)
        return
        yield

    def widen(self):
        if self.seq is not None:
            return
        def col(vals):
            if not vals:
                return z3.Empty(SeqVal)
            for x in vals:
                if not isinstance(x, Opaque):
                    raise Unsupported(f"widening builder holding {x!r}")
            us = [z3.Unit(x.t) for x in vals]
            return us[0] if len(us) == 1 else z3.Concat(*us)
        if self.items and isinstance(self.items[0], tuple):
            k = len(self.items[0])
            self.seq = tuple(col([it[j] for it in self.items]) for j in range(k))
            self.width = k
        elif not self.items and getattr(self, "width", None):
            self.seq = tuple(z3.Empty(SeqVal) for _ in range(self.width))
        else:
            self.seq = col(self.items)
        self.items = None

    def result(self):
        if self.seq is None:
            if self.kind == "list":
                return SList(items=list(self.items))
            if self.kind == "dict" and all(isinstance(k, (str, int)) for k, _ in self.items):
                return {k: v for k, v in self.items}
            self.widen()
        if self.kind == "list":
            if isinstance(self.seq, tuple):
                return SRows(list(self.seq))
            return SList(seq=self.seq)
        if self.kind == "set":
            return SColl("set", set_of(self.seq))
        return SColl("dict", dict_of(self.seq[0], self.seq[1]) if isinstance(self.seq, tuple) else dict_of(self.seq, self.seq))


class SRows(SList):
    """symbolic-length list of fixed-width tuples of user objects: one Seq per column"""
    def __init__(self, cols):
        super().__init__(items=None, seq=cols[0])
        self.cols = cols


def list_method(interp, lst, name, args, kwargs):
    ctx = interp.ctx
    if name == "append":
        v = args[0]
        if lst.seq is None:
            lst.items.append(v)
        else:
            if not isinstance(v, Opaque):
                raise Unsupported("append of non-user value to symbolic list")
            lst.seq = z3.Concat(lst.seq, z3.Unit(v.t))
        return None
    if name == "clear":
        if lst.seq is None:
            lst.items.clear()
        else:
            lst.seq = z3.Empty(SeqVal)
        return None
    if name == "popleft" or (name == "pop" and lst.seq is not None and args and args[0] == 0):
        if lst.seq is None:
            if not lst.items:
                raise PyRaise(ExcVal("IndexError", ident="pop from empty"))
            return lst.items.pop(0)
        if not ctx.branch(z3.Length(lst.seq) > 0):
            raise PyRaise(ExcVal("IndexError", ident="pop from empty"))
        head = Opaque(lst.seq[0])
        lst.seq = z3.SubSeq(lst.seq, 1, z3.Length(lst.seq) - 1)
        return head
    if name == "pop":
        if lst.seq is None:
            if not lst.items:
                raise PyRaise(ExcVal("IndexError", ident="pop from empty"))
            if args:
                i = args[0]
                if not isinstance(i, int):
                    raise Unsupported("pop with symbolic index")
                return lst.items.pop(i)
            return lst.items.pop()
        if args:
            raise Unsupported("pop(i) on symbolic list")
        if not ctx.branch(z3.Length(lst.seq) > 0):
            raise PyRaise(ExcVal("IndexError", ident="pop from empty"))
        n = z3.Length(lst.seq)
        last = Opaque(lst.seq[n - 1])
        lst.seq = z3.SubSeq(lst.seq, 0, n - 1)
        return last
    if name == "sort":
        reverse = kwargs.get("reverse", False)
        rv = to_bool(ctx, reverse)
        rv = z3.BoolVal(rv) if isinstance(rv, bool) else rv
        key = kwargs.get("key")
        if key is not None and not isinstance(lst, SRows) and lst.seq is None:
            # concrete list of fixed-width tuples of user values: view it as symbolic rows (one Seq per column)
            if not lst.items:
                return None
            if all(isinstance(x, tuple) and len(x) == len(lst.items[0]) and all(isinstance(y, Opaque) for y in x) for x in lst.items):
                k = len(lst.items[0])
                cols = []
                for j in range(k):
                    us = [z3.Unit(x[j].t) for x in lst.items]
                    cols.append(us[0] if len(us) == 1 else z3.Concat(*us))
                lst.__class__ = SRows
                lst.cols = cols
                lst.seq = cols[0]
                lst.items = None
        if isinstance(lst, SRows):
            if key is None:
                raise Unsupported("sort of tuple rows without key")
            # apply the key function to a generic row to find the key column
            row = tuple(Opaque(ctx.fresh(Val, "row")) for _ in lst.cols)
            kv = yield from interp.call(key, [row], {})
            idx = [j for j, x in enumerate(row) if x is kv]
            if len(idx) != 1:
                raise Unsupported("sort key is not a column projection")
            kcol = lst.cols[idx[0]]
            lst.cols = [sort_by(kcol, c, rv) for c in lst.cols]
            lst.seq = lst.cols[0]
            return None
        if key is not None:
            raise Unsupported("list.sort(key=...) on plain list")
        if lst.seq is None and not all(isinstance(x, Opaque) for x in lst.items):
            # statically sized list of library objects / tuples: stable insertion sort using only `<` (list.sort's contract)
            rev = ctx.branch(rv)
            items = list(lst.items)
            out = []
            for x in items:
                pos = len(out)
                while pos > 0:
                    a, b = (out[pos - 1], x) if rev else (x, out[pos - 1])
                    c = yield from rich_compare(interp, ast.Lt(), a, b, None)
                    if not ctx.branch(to_bool(ctx, c)):
                        break
                    pos -= 1
                out.insert(pos, x)
            lst.items[:] = out
            return None
        lst.widen()
        lst.seq = sort_by(lst.seq, lst.seq, rv)
        return None
    if name == "remove":
        # list.remove(x): the first element that IS x or compares equal to it (deques/lists compare by content)
        if lst.seq is not None:
            raise Unsupported("remove on a symbolic list")
        x = args[0]
        for idx, e in enumerate(list(lst.items)):
            if e is x:
                hit = True
            elif isinstance(e, SList) and isinstance(x, SList) and e.kind == x.kind:
                hit = ctx.branch(e.to_seq() == x.to_seq())
            elif isinstance(e, Opaque) and isinstance(x, Opaque):
                hit = ctx.branch(z3.Or(e.t == x.t, ctx.mk_eq(e.t, x.t)))
            else:
                hit = False
            if hit:
                lst.items.pop(idx)
                return None
        raise PyRaise(ExcVal("ValueError", ident="list.remove(x): x not in list"))
    if name == "__len__":
        return list_len(lst)
    if name == "extend":
        vs = args[0]
        if lst.seq is None and isinstance(vs, (tuple, list)):
            lst.items.extend(vs)
            return None
    raise Unsupported(f"list method {name}")
    yield


def list_len(lst):
    if lst.seq is None:
        return len(lst.items)
    return mk_int(z3.Length(lst.seq))


def dict_method(interp, d, name, args, kwargs):
    if isinstance(d, InstanceDict):
        d = d.obj.f
    from .odmodel import od_method
    if name in ("move_to_end", "popitem", "pop", "get"):
        r = od_method(interp, d, name, args, kwargs)
        if r is not NotImplemented:
            return r
    if name == "items":
        return DictView(d, "items")
    if name == "values":
        return DictView(d, "values")
    if name == "keys":
        return DictView(d, "keys")
    if name == "get":
        return d.get(args[0], args[1] if len(args) > 1 else None)
    if name == "pop":
        if args[0] in d:
            return d.pop(args[0])
        if len(args) > 1:
            return args[1]
        raise PyRaise(ExcVal("KeyError", ident=("key", str(args[0]))))
    if name == "update":
        d.update(args[0])
        return None
    if name == "clear":
        d.clear()
        return None
    raise Unsupported(f"dict method {name}")
    yield


def get_item(interp, o, k, site):
    ctx = interp.ctx
    if isinstance(o, (tuple, list)):
        if isinstance(k, int):
            try:
                return o[k]
            except IndexError:
                raise PyRaise(ExcVal("IndexError"))
        if isinstance(k, Slice3) and all(isinstance(x, int) or x is None for x in (k.start, k.stop, k.step)):
            return o[slice(k.start, k.stop, k.step)]
        raise Unsupported("tuple index")
    if isinstance(o, SList):
        if o.seq is None:
            if isinstance(k, int):
                try:
                    return o.items[k]
                except IndexError:
                    raise PyRaise(ExcVal("IndexError"))
            raise Unsupported("symbolic index into concrete list")
        i = as_int(k)
        if isinstance(k, int) and k < 0:
            i = z3.Length(o.seq) + k
        if not ctx.branch(z3.And(i >= 0, i < z3.Length(o.seq))):
            raise PyRaise(ExcVal("IndexError"))
        return Opaque(o.seq[i])
    if isinstance(o, (dict, InstanceDict)):
        d = o.obj.f if isinstance(o, InstanceDict) else o
        from .odmodel import od_getitem
        return od_getitem(interp, d, k)
    if isinstance(o, Opaque):
        resp = yield Ev("Op", "getitem", (o, k), site=site)
        ctx.evseq += 1
        if resp[0] == "ret":
            return resp[1]
        raise PyRaise(resp[1])
    if isinstance(o, Obj):
        m = o.cls.lookup("__getitem__")
        if m is not None:
            return (yield from interp.call(m, [o, k], {}))
    raise Unsupported(f"subscript of {o!r}")


def set_item(interp, o, k, v):
    if isinstance(o, SList) and o.seq is None and isinstance(k, int):
        o.items[k] = v
        return
    if isinstance(o, dict):
        from .odmodel import od_setitem
        od_setitem(interp, o, k, v)
        return
    if isinstance(o, InstanceDict):
        o.obj.f[k] = v
        return
    raise Unsupported(f"item assignment on {o!r}")
    yield


def del_item(interp, o, k):
    if isinstance(o, dict):
        if k in o:
            del o[k]
            return
        raise PyRaise(ExcVal("KeyError"))
    if isinstance(o, InstanceDict):
        if k in o.obj.f:
            del o.obj.f[k]
            return
        raise PyRaise(ExcVal("KeyError"))
    raise Unsupported("del item")
    yield


def contains(interp, container, x):
    if isinstance(container, SList) and container.seq is None:
        # `x in list`: identity or == (lists/deques compare by content)
        ctx = interp.ctx
        for e in container.items:
            if e is x:
                return True
            if isinstance(e, SList) and isinstance(x, SList) and e.kind == x.kind:
                if ctx.branch(e.to_seq() == x.to_seq()):
                    return True
            elif isinstance(e, Opaque) and isinstance(x, Opaque):
                if ctx.branch(z3.Or(e.t == x.t, ctx.mk_eq(e.t, x.t))):
                    return True
        return False
    if isinstance(container, (tuple, list)):
        for c in container:
            b = identical(c, x)
            if isinstance(b, bool):
                if b:
                    return True
            else:
                raise Unsupported("symbolic membership")
        return False
    if isinstance(container, dict):
        from .odmodel import od_contains
        return od_contains(interp, container, x)
    if isinstance(container, InstanceDict):
        return x in container.obj.f
    raise Unsupported(f"membership in {container!r}")
    yield


def call_builtin(interp, name, args, kwargs, site):
    """generator: contracts of python builtins and of the overridden _core helpers"""
    ctx = interp.ctx
    # ---- _core contracts (used when a job overrides aiter/awaitify) ----------------------
    if name == "contract.awaitify":
        f = args[0]
        if isinstance(f, UserFn):
            return AwaitifyWrapped(f)
        if isinstance(f, Builtin) and f.name == "bool":
            return Builtin("contract.async_bool")
        if isinstance(f, (Closure, BoundMethod, Partial)):
            # library function: iscoroutinefunction -> itself, else wrapped sync call
            node = f.node if isinstance(f, Closure) else (f.fn.node if isinstance(f, BoundMethod) and isinstance(f.fn, Closure) else None)
            if node is not None and isinstance(node, ast.AsyncFunctionDef):
                return f
            return AwaitifyWrapped(f)
        from .interp import CMMethod
        if isinstance(f, CMMethod):
            return AwaitifyWrapped(f)
        raise Unsupported(f"awaitify({f!r})")
    if name == "contract.callkey":
        # CallKey.from_call(args, kwds, typed=...) for the call shapes the jobs use: one positional user argument
        a, kw = args[0], args[1]
        if isinstance(a, tuple) and len(a) == 1 and isinstance(a[0], Opaque) and not kw:
            return a[0]
        raise Unsupported("call pattern outside the contract of the cache-logic jobs")
    if name == "contract.async_bool":
        return UserAwaitable(("ret", mk_bool(to_bool(ctx, args[0]))), ctx.evseq, None)
    if name == "contract.aiter":
        s = args[0]
        if isinstance(s, (Source, GenObj)):
            if isinstance(s, GenObj) and not s.is_async:
                # sync generator object wrapped by _aiter_sync
                return s
            return s
        if isinstance(s, Obj):
            m = s.cls.lookup("__aiter__")
            if m is not None:
                return (yield from interp.call(m, [s], {}))
            if s.cls.lookup("__anext__") is not None:
                return s
        it = native_iter(s)
        if it is not None:
            if it is s and not it.kw.get("async_wrapped"):
                it = NativeIter(it.kind, it.data, **it.kw)
                it.idx = s.idx
            it.kw["async_wrapped"] = True      # `_aiter_sync(iterable)`: an async generator over a plain iterable
            return it
        raise PyRaise(ExcVal("TypeError", ident="not iterable"))
    # ---- type tests ------------------------------------------------------------------------
    if name == "isinstance":
        v, c = args
        cs = c if isinstance(c, tuple) else (c,)
        if isinstance(v, (Source, UserFn, Opaque)) and interp.side == "impl" and interp.frames:
            mod = interp.frames[-1].fn.module.modname
            for c1 in cs:
                if isinstance(c1, Builtin) and c1.name in ("typing.AsyncIterable", "typing.Awaitable", "typing.Iterable", "typing.Coroutine") and mod not in ("_core", "asynctools", "core_adapters", "canary_sync"):
                    interp.flavour_tests.append((mod, site, f"isinstance(_, {c1.name.split('.')[-1]})"))
        for c1 in cs:
            if isinstance(c1, Builtin) and c1.name in ABC_ATTR:
                if has_protocol(interp, v, ABC_ATTR[c1.name]):
                    return True
            elif isinstance(c1, ClassVal):
                if c1.name == "ACloseable":
                    if has_protocol(interp, v, ("aclose",)):
                        return True
                elif c1.name == "Sentinel":
                    if isinstance(v, Sentinel):
                        return True
                elif isinstance(v, Obj) and c1 in v.cls.mro():
                    return True
            elif isinstance(c1, ExcClass):
                if isinstance(v, ExcVal) and exc_isinstance(v, c1.name):
                    return True
            elif isinstance(c1, Builtin) and c1.name in ("int", "str", "type", "bytes", "bytearray", "float", "tuple", "list", "dict"):
                if isinstance(v, Opaque):
                    # the contract states which concrete python types user values may have
                    shape = interp.opts.get("val_types", {}).get(c1.name)
                    if shape is None:
                        raise Unsupported(f"isinstance(user value, {c1.name})")
                    return shape
                py = {"int": (int, SInt), "str": str, "type": (ClassVal, ExcClass), "bytes": bytes, "bytearray": bytearray,
                      "float": float, "tuple": (tuple, STuple), "list": SList, "dict": dict}[c1.name]
                if isinstance(v, bool) and c1.name == "int":
                    return True
                if isinstance(v, py):
                    return True
            else:
                raise Unsupported(f"isinstance(_, {c1!r})")
        return False
    if name == "issubclass":
        v, c = args
        if isinstance(c, Builtin) and c.name in ABC_ATTR and isinstance(v, ClassVal):
            return all(v.lookup(a) is not None for a in ABC_ATTR[c.name])
        if isinstance(v, ExcClass):
            cs = c if isinstance(c, tuple) else (c,)
            if all(isinstance(c1, ExcClass) for c1 in cs):
                return any(exc_issubclass(v.name, c1.name) for c1 in cs)
        raise Unsupported("issubclass")
    if name == "hasattr":
        if isinstance(args[0], (Source, UserFn, Opaque)) and interp.side == "impl" and interp.frames and args[1] not in (
                "aclose", "asend", "athrow", "__aexit__", "__exit__", "__anext__", "__aiter__", "__aenter__", "__enter__"):
            interp.flavour_tests.append((interp.frames[-1].fn.module.modname, site, f"hasattr(_, {args[1]!r})"))
        return interp.hasattr(args[0], args[1])
    if name == "getattr":
        try:
            r = interp.getattr(args[0], args[1])
        except PyRaise as pr:
            if pr.exc.cls == "AttributeError" and len(args) > 2:
                return args[2]
            raise
        return (yield from interp.resolve_attr(r))
    if name == "callable":
        v = args[0]
        if isinstance(v, (UserFn, Closure, BoundMethod, Builtin, Partial, ClassVal, AwaitifyWrapped)):
            return True
        if isinstance(v, UserCM):
            return False
        if isinstance(v, Obj):
            return v.cls.lookup("__call__") is not None
        if isinstance(v, Opaque):
            raise Unsupported("callable(user value)")
        return False
    if name in ("iscoroutinefunction", "inspect.iscoroutinefunction", "asyncio.iscoroutinefunction"):
        f = args[0]
        if isinstance(f, UserFn) and interp.side == "impl" and interp.frames:
            mod = interp.frames[-1].fn.module.modname
            if mod not in ("_core", "asynctools", "functools", "core_adapters", "canary_sync"):
                interp.flavour_tests.append((mod, site, "iscoroutinefunction(_)"))
        if isinstance(f, UserFn):
            if f.flavour == "any":
                # the code under contract inspects the flavour: from here on the callable is one or the other
                f.flavour = ("sync", "corofn")[interp.ctx.choose(2, f"flavour of {f.name}")]
                f.inspected = True
            return f.flavour == "corofn"
        if isinstance(f, Closure):
            return isinstance(f.node, ast.AsyncFunctionDef) and not _is_gen(f.node)
        if isinstance(f, BoundMethod) and isinstance(f.fn, Closure):
            return isinstance(f.fn.node, ast.AsyncFunctionDef) and not _is_gen(f.fn.node)
        return False
    if name == "type":
        v = args[0]
        if isinstance(v, Obj):
            return v.cls
        if isinstance(v, ExcVal):
            return ExcClass(v.cls)
        if isinstance(v, (int, SInt)) and not isinstance(v, bool):
            return Builtin("int")
        if isinstance(v, str):
            return Builtin("str")
        raise Unsupported(f"type({v!r})")
    # ---- constructors ----------------------------------------------------------------------
    if name == "_support.await_" or name == "await_":
        return (yield from interp.await_(args[0], site))
    if name == "object":
        return Sentinel(f"object@{site}")
    if name == "Sentinel" or name == "_core.Sentinel":
        return Sentinel(str(args[0]))
    if name == "bool":
        return mk_bool(to_bool(ctx, args[0])) if args else False
    if name == "slice":
        a = list(args)
        if len(a) == 1:
            return Slice3(None, a[0], None)
        if len(a) == 2:
            return Slice3(a[0], a[1], None)
        if len(a) == 3:
            return Slice3(*a)
        raise PyRaise(ExcVal("TypeError", ident="slice arity"))
    if name == "deque":
        if args:
            raise Unsupported("deque(iterable)")
        return SList(items=[], kind="deque")
    if name in ("list", "tuple"):
        if not args:
            return SList(items=[]) if name == "list" else ()
        v = args[0]
        if isinstance(v, SList):
            if v.seq is None:
                return SList(items=list(v.items)) if name == "list" else tuple(v.items)
            return SList(seq=v.seq) if name == "list" else STuple(v.seq)
        if isinstance(v, STuple):
            return SList(seq=v.seq) if name == "list" else v
        if isinstance(v, (tuple, list)):
            return SList(items=list(v)) if name == "list" else tuple(v)
        if isinstance(v, (GenObj, NativeIter, DictView)):
            vals = []
            it = native_iter(v) if not isinstance(v, GenObj) else v
            while True:
                try:
                    x = yield from interp.pull(it)
                except PyRaise as pr:
                    if pr.exc.cls in ("StopIteration", "StopAsyncIteration"):
                        break
                    raise
                vals.append(x)
                if len(vals) > 64:
                    raise Unsupported("unbounded list()")
            return SList(items=vals) if name == "list" else tuple(vals)
        if isinstance(v, Source) and interp.side == "ref":
            # list(iterable) in a reference: a pull loop
            raise Unsupported("list(source) in reference: write the loop explicitly")
        raise Unsupported(f"{name}({v!r})")
    if name == "dict":
        if not args:
            return dict(kwargs)
        raise Unsupported("dict(x)")
    if name == "len":
        v = args[0]
        if isinstance(v, (tuple, list, dict)):
            return len(v)
        if isinstance(v, SList):
            return list_len(v)
        if isinstance(v, STuple):
            return mk_int(z3.Length(v.seq))
        if isinstance(v, Obj):
            m = v.cls.lookup("__len__")
            if m is not None:
                return (yield from interp.call(m, [v], {}))
        if isinstance(v, (Source, GenObj)):
            raise PyRaise(ExcVal("TypeError", ident="object has no len()"))
        raise Unsupported(f"len({v!r})")
    if name == "range":
        if len(args) == 1:
            lo, hi = 0, args[0]
        elif len(args) == 2:
            lo, hi = args
        elif all(isinstance(a, int) for a in args):
            return NativeIter("seq", list(range(*args)))
        else:
            raise Unsupported("range with symbolic step")
        if isinstance(lo, int) and isinstance(hi, int):
            return NativeIter("seq", list(range(lo, hi)))
        return NativeIter("range", (lo, hi))
    if name == "enumerate":
        it = native_iter(args[0])
        start = args[1] if len(args) > 1 else kwargs.get("start", 0)
        if it is None:
            raise Unsupported("enumerate of non-native iterable")
        if it.kind == "seq" and isinstance(start, int):
            seq = it.data.items if isinstance(it.data, SList) else it.data
            return NativeIter("seq", [(start + i, v) for i, v in enumerate(seq[it.idx:])])
        return NativeIter("enumerate", it, start=start)
    if name == "reversed":
        v = args[0]
        if isinstance(v, SList) and v.seq is None:
            return NativeIter("seq", list(reversed(v.items)))
        if isinstance(v, (tuple, list)):
            return NativeIter("seq", list(reversed(v)))
        if isinstance(v, NativeIter) and v.kind == "seq":
            seq = v.data.items if isinstance(v.data, SList) else v.data
            return NativeIter("seq", list(reversed(seq[v.idx:])))
        raise Unsupported("reversed")
    if name == "map":
        f, v = args[0], args[1]
        it = native_iter(v)
        if it is not None and it.kind == "seq":
            seq = it.data.items if isinstance(it.data, SList) else it.data
            out = []
            for x in seq[it.idx:]:
                out.append((yield from interp.call(f, [x], {})))
            return NativeIter("seq", out)
        raise Unsupported("map over non-static iterable")
    if name == "zip":
        its = [native_iter(a) for a in args]
        if any(i is None for i in its):
            if all(i is not None or isinstance(a, (Source, GenObj)) for i, a in zip(its, args)):
                from .interp import LazyZip
                return LazyZip([i if i is not None else a for i, a in zip(its, args)])
            raise Unsupported("zip over non-native iterables")
        if all(i.kind == "seq" for i in its):
            seqs = [(i.data.items if isinstance(i.data, SList) else i.data)[i.idx:] for i in its]
            return NativeIter("seq", list(zip(*seqs)))
        return NativeIter("zip", its)
    if name == "iter":
        v = args[0]
        if len(args) == 2:
            raise Unsupported("iter(callable, sentinel) builtin")
        if isinstance(v, (Source, GenObj)):
            return v
        if isinstance(v, Obj) and v.cls.lookup("__iter__") is not None:
            return (yield from interp.call(v.cls.lookup("__iter__"), [v], {}))
        it = native_iter(v)
        if it is not None:
            return it
        raise PyRaise(ExcVal("TypeError", ident="not iterable"))
    if name == "next":
        it = args[0]
        try:
            return (yield from interp.pull(it, site, sync=True))
        except PyRaise as pr:
            if pr.exc.cls in ("StopIteration",) and len(args) > 1:
                return args[1]
            raise
    if name in ("min", "max", "sorted") and interp.side == "ref" and interp.frames:
        prog = interp.frames[-1].fn.module.program
        fn = prog.module("ref_builtins").lookup({"min": "min", "max": "max", "sorted": "sorted_"}[name])
        return (yield from interp.call(fn, args, kwargs, site))
    if name == "id":
        return Sentinel("id")
    if name == "hash":
        v = args[0]
        if isinstance(v, Opaque):
            resp = yield Ev("Op", "hash", (v,), site=site)
            ctx.evseq += 1
            if resp[0] == "ret":
                return resp[1]
            raise PyRaise(resp[1])
        return Sentinel("hash")
    if name in ("partial", "functools.partial"):
        return Partial(args[0], args[1:], kwargs)
    if name in ("wraps", "functools.wraps", "update_wrapper", "functools.update_wrapper"):
        if name.endswith("wraps"):
            return Builtin("identity_decorator")
        return args[0]
    if name == "identity_decorator":
        return args[0]
    if name in ("typing.cast",):
        return args[1]
    if name in ("typing.overload",):
        return args[0]
    if name == "_utility.public_module" or name == "public_module":
        return Builtin("identity_decorator")
    if name == "sys.exc_info":
        fr = interp.frames[-1] if interp.frames else None
        cur = None
        for f in reversed(interp.frames):
            if f.exc_stack:
                cur = f.exc_stack[-1]
                break
        return (ExcClass(cur.cls) if cur else None, cur, TBV if cur else None)
    if name in ("heapq.heapify", "heapq.heapreplace", "heapq.heappop", "heapq.heappush"):
        from .heapmodel import heap_op
        return (yield from heap_op(interp, name.split(".")[1], args, site))
    if name == "OrderedDict" or name == "collections.OrderedDict":
        from .odmodel import ODict
        return ODict()
    if name in ("print", "noop"):
        return None
    if name in ("str", "repr"):
        return "<str>"
    if name.startswith("typing."):
        raise Unsupported(f"call of typing construct {name}")
    raise Unsupported(f"builtin {name}")


class Builtin2(Builtin):
    def __init__(self, name, arg):
        super().__init__(name)
        self.arg = arg


class CMMethodT:
    pass


TBV = Sentinel("traceback")


def _is_gen(node):
    from .interp import has_yield
    return has_yield(node)
