"""abstract dict / OrderedDict keyed by call patterns (trusted contract, DESIGN A.4) - see lru jobs"""


class ODict:
    pass
