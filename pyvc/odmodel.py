"""dict / OrderedDict holding user-object keys (trusted contract of dict/OrderedDict, DESIGN A.4).

A Python dict of the interpreter is used as the store (insertion ordered); a key that is a user object (Opaque)
is looked up by *symbolic equality*: the path forks on `key == stored_key` for each stored key in order.  The
cache keys of lru_cache are abstract call patterns, so equality of the z3 terms is equality of patterns."""
import z3
from .values import *


class ODict(dict):
    """collections.OrderedDict: a dict with move_to_end / popitem(last=False)"""
    ordered = True


def find_key(ctx, d, key):
    """the stored key equal to `key`, or None (forks on symbolic equality)"""
    if not isinstance(key, Opaque):
        return key if key in d else None
    for k in list(d.keys()):
        if isinstance(k, Opaque):
            if ctx.branch(k.t == key.t):
                return k
    return None


def od_getitem(interp, d, key):
    k = find_key(interp.ctx, d, key)
    if k is None:
        raise PyRaise(ExcVal("KeyError", ident=("key", str(key))))
    return dict.__getitem__(d, k)


def od_setitem(interp, d, key, value):
    k = find_key(interp.ctx, d, key)
    dict.__setitem__(d, key if k is None else k, value)


def od_contains(interp, d, key):
    return find_key(interp.ctx, d, key) is not None


def od_method(interp, d, name, args, kwargs):
    ctx = interp.ctx
    if name == "move_to_end":
        k = find_key(ctx, d, args[0])
        if k is None:
            raise PyRaise(ExcVal("KeyError", ident=("key", str(args[0]))))
        last = kwargs.get("last", args[1] if len(args) > 1 else True)
        v = dict.pop(d, k)
        if last:
            dict.__setitem__(d, k, v)
        else:
            items = list(d.items())
            dict.clear(d)
            dict.__setitem__(d, k, v)
            for kk, vv in items:
                dict.__setitem__(d, kk, vv)
        return None
    if name == "popitem":
        last = kwargs.get("last", args[0] if args else True)
        if not d:
            raise PyRaise(ExcVal("KeyError", ident="popitem(): dictionary is empty"))
        k = list(d.keys())[-1 if last else 0]
        return (k, dict.pop(d, k))
    if name == "pop":
        k = find_key(ctx, d, args[0])
        if k is not None:
            return dict.pop(d, k)
        if len(args) > 1:
            return args[1]
        raise PyRaise(ExcVal("KeyError", ident=("key", str(args[0]))))
    if name == "get":
        k = find_key(ctx, d, args[0])
        if k is not None:
            return dict.__getitem__(d, k)
        return args[1] if len(args) > 1 else None
    return NotImplemented
